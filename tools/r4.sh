p=$1
for k in m1 m2; do
  [ -f /tmp/wt/out4_$p/$k/patch.diff ] || continue
  echo -n "$p-r4$k: "; python3 /verif/tools/seed.py verify /tmp/wt/out4_$p/$k $p-r4$k | tail -1
  [ -d /verif/seeded/$p-r4$k ] && python3 /verif/tools/seed.py runwt $p-r4$k
done
git -C /repo worktree remove --force /tmp/wt/r4_$p 2>/dev/null
