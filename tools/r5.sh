p=$1
for k in m1 m2; do
  [ -f /tmp/wt/out5_$p/$k/patch.diff ] || continue
  echo -n "$p-r5$k: "; python3 /verif/tools/seed.py verify /tmp/wt/out5_$p/$k $p-r5$k | tail -1
  [ -d /verif/seeded/$p-r5$k ] && python3 /verif/tools/seed.py runwt $p-r5$k
done
git -C /repo worktree remove --force /tmp/wt/r5_$p 2>/dev/null
