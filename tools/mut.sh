#!/bin/bash
# tools/mut.sh <check ids, comma separated> <file under /repo/lib/yaml> <sed expr> [--tests]
# applies a one-line scratch mutant to /repo (working tree only), runs the quick check(s), reverts.
ids=$1; f=/repo/lib/yaml/$2; expr=$3
git -C /repo diff --quiet || { echo "repo dirty"; exit 9; }
sed -i "$expr" "$f"
if git -C /repo diff --quiet; then echo "mutant did not change anything"; exit 8; fi
git -C /repo diff | grep '^[-+]' | grep -v '^\(---\|+++\)' | cut -c1-160
if [ "$4" == "--tests" ]; then (cd /repo && /venv/bin/python -m pytest -q -p no:cacheprovider --timeout=900 -x 2>&1 | tail -1); fi
for id in ${ids//,/ }; do (cd /verif && ./check $id 2>&1 | grep -v "^  detail" | cut -c1-250 | tail -3); done
git -C /repo checkout -- .
