#!/bin/bash
# tools/mkwt.sh <name>: scratch git worktree of /repo HEAD at /tmp/wt/<name>, with the git-ignored
# extension artefacts copied in, so the pinned suite runs there with PYTHONPATH=<wt>/lib.
set -e
name=$1
d=/tmp/wt/$name
mkdir -p /tmp/wt
git -C /repo worktree add --detach "$d" HEAD >/dev/null 2>&1
cp /repo/lib/yaml/_yaml.cpython-312-x86_64-linux-gnu.so "$d/lib/yaml/" 2>/dev/null || true
cp /repo/yaml/_yaml.c "$d/yaml/" 2>/dev/null || true
echo "$d"
