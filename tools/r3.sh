#!/bin/bash
# tools/r2.sh <Cxx>: verify the round-3 sub-agent mutants of one property and run its check against each (scratch worktrees)
p=$1
for k in m1 m2; do
  [ -f /tmp/wt/out3_$p/$k/patch.diff ] || continue
  echo -n "$p-r3$k: "; python3 /verif/tools/seed.py verify /tmp/wt/out3_$p/$k $p-r3$k | tail -1
  [ -d /verif/seeded/$p-r3$k ] && python3 /verif/tools/seed.py runwt $p-r3$k
done
git -C /repo worktree remove --force /tmp/wt/r3_$p 2>/dev/null
