#!/usr/bin/env python3
"""tools/seed.py verify <src dir> <seeded id>   - confirm a sub-agent's mutant in a scratch worktree and file it under seeded/<id>/
   tools/seed.py run <seeded id> [check ids...] [--tier quick]  - apply seeded/<id>/patch.diff to /repo, run the checks, undo
   tools/seed.py table                        - print the detection table from seeded/*/meta.json
"""
import json
import os
import shutil
import subprocess
import sys
import time

ROOT = os.path.dirname(os.path.dirname(os.path.abspath(__file__)))
SEEDED = os.path.join(ROOT, 'seeded')
PY = '/venv/bin/python'


def sh(cmd, **kw):
    return subprocess.run(cmd, shell=isinstance(cmd, str), capture_output=True, text=True, **kw)


def verify(src, sid):
    wt = '/tmp/wt/verify_%s' % sid
    sh('git -C /repo worktree remove --force %s' % wt)
    r = sh('git -C /repo worktree add --detach %s HEAD' % wt)
    if r.returncode:
        print(r.stderr)
        return 1
    try:
        shutil.copy('/repo/lib/yaml/_yaml.cpython-312-x86_64-linux-gnu.so', wt + '/lib/yaml/')
        env = dict(os.environ, PYTHONPATH=wt + '/lib', PYTHONDONTWRITEBYTECODE='1')
        patch = os.path.join(src, 'patch.diff')
        demo = os.path.join(src, 'demo.py')
        d0 = sh([PY, demo], env=env, cwd=src, timeout=600)
        a = sh(['git', '-C', wt, 'apply', patch])
        if a.returncode:
            print('patch does not apply:', a.stderr)
            return 1
        t = sh([PY, '-m', 'pytest', '-q', '-p', 'no:cacheprovider', '--timeout=900'], env=env, cwd=wt, timeout=1800)
        tests = (t.stdout.strip().splitlines() or ['?'])[-1]
        d1 = sh([PY, demo], env=env, cwd=src, timeout=600)
        ok = d0.returncode == 0 and d1.returncode == 1 and ' passed' in tests and 'failed' not in tests and 'error' not in tests
        print('demo without patch: rc=%d; with patch: rc=%d; tests: %s -> %s' % (d0.returncode, d1.returncode, tests, 'CONFIRMED' if ok else 'REJECTED'))
        if not ok:
            print(d0.stdout[-500:], d0.stderr[-500:], d1.stdout[-500:], d1.stderr[-500:])
            return 1
        dst = os.path.join(SEEDED, sid)
        os.makedirs(dst, exist_ok=True)
        shutil.copy(patch, dst)
        shutil.copy(demo, dst)
        meta = {}
        try:
            meta = json.load(open(os.path.join(src, 'meta.json')))
        except (OSError, ValueError):
            pass
        meta['id'] = sid
        meta['confirmed'] = {'tests_with_patch': tests, 'demo_rc_without_patch': d0.returncode, 'demo_rc_with_patch': d1.returncode,
                             'demo_output_with_patch': (d1.stdout + d1.stderr)[-600:],
                             'how': 'scratch worktree of /repo HEAD under /tmp/wt, PYTHONPATH=<wt>/lib; pinned pytest command; demo.py run before and after git apply'}
        meta.setdefault('detected_by', {})
        json.dump(meta, open(os.path.join(dst, 'meta.json'), 'w'), indent=1)
        return 0
    finally:
        sh('git -C /repo worktree remove --force %s' % wt)


def run(sid, checks, tier='quick'):
    dst = os.path.join(SEEDED, sid)
    meta = json.load(open(os.path.join(dst, 'meta.json')))
    checks = checks or [meta['property']]
    if sh('git -C /repo diff --quiet').returncode:
        print('repo dirty')
        return 9
    a = sh(['git', '-C', '/repo', 'apply', os.path.join(dst, 'patch.diff')])
    if a.returncode:
        print('patch does not apply to /repo:', a.stderr)
        return 1
    try:
        for c in checks:
            t0 = time.time()
            r = sh([os.path.join(ROOT, 'check'), c, '--tier', tier], cwd=ROOT, env=dict(os.environ, VERIF_NO_EVIDENCE='1'))
            nv = sum(1 for l in r.stdout.splitlines() if l.startswith('VIOLATION'))
            verdict = 'caught' if r.returncode == 1 and nv else ('inconclusive' if r.returncode == 2 else 'missed')
            first = next((l for l in r.stdout.splitlines() if l.startswith('  detail')), '')[:400]
            print('%s under %s [%s]: rc=%d violations=%d %.0fs -> %s' % (sid, c, tier, r.returncode, nv, time.time() - t0, verdict))
            if first:
                print('   ', first)
            if r.returncode not in (0, 1, 2):
                print(r.stdout[-800:], r.stderr[-800:])
            meta.setdefault('detected_by', {})[c + ':' + tier] = {'verdict': verdict, 'violations_listed': nv, 'first': first[:300]}
    finally:
        sh('git -C /repo checkout -- .')
    json.dump(meta, open(os.path.join(dst, 'meta.json'), 'w'), indent=1)
    return 0


def run_wt(sid, checks, tier='quick'):
    """Like run(), but in a scratch worktree of /repo (VERIF_REPO points the checks at it): /repo stays untouched, runs can overlap."""
    dst = os.path.join(SEEDED, sid)
    meta = json.load(open(os.path.join(dst, 'meta.json')))
    checks = checks or [meta['property']]
    wt = '/tmp/wt/seedrun_%s' % sid
    sh('git -C /repo worktree remove --force %s' % wt)
    r = sh('git -C /repo worktree add --detach %s HEAD' % wt)
    if r.returncode:
        print(r.stderr)
        return 1
    out = []
    try:
        shutil.copy('/repo/lib/yaml/_yaml.cpython-312-x86_64-linux-gnu.so', wt + '/lib/yaml/')
        shutil.copy('/repo/yaml/_yaml.c', wt + '/yaml/')
        a = sh(['git', '-C', wt, 'apply', os.path.join(dst, 'patch.diff')])
        if a.returncode and '_yaml.c' in open(os.path.join(dst, 'patch.diff')).read(300):
            # own changes to the generated glue are plain 'diff -u' patches with scratch paths: apply to yaml/_yaml.c by name
            a = sh('patch -s %s/yaml/_yaml.c < %s' % (wt, os.path.join(dst, 'patch.diff')))
        if a.returncode:
            print('%s: patch does not apply: %s' % (sid, a.stderr[:200]))
            meta.setdefault('detected_by', {})['apply'] = {'verdict': 'patch no longer applies to HEAD', 'violations_listed': 0, 'first': a.stderr[:200]}
            json.dump(meta, open(os.path.join(dst, 'meta.json'), 'w'), indent=1)
            return 1
        for c in checks:
            t0 = time.time()
            r = sh([os.path.join(ROOT, 'check'), c, '--tier', tier], cwd=ROOT, env=dict(os.environ, VERIF_NO_EVIDENCE='1', VERIF_REPO=wt, VERIF_JOBS='6'))
            nv = sum(1 for l in r.stdout.splitlines() if l.startswith('VIOLATION'))
            verdict = 'caught' if r.returncode == 1 and nv else ('inconclusive' if r.returncode == 2 else 'missed')
            first = next((l for l in r.stdout.splitlines() if l.startswith('  detail')), '')[:400]
            print('%s under %s [%s]: rc=%d violations=%d %.0fs -> %s' % (sid, c, tier, r.returncode, nv, time.time() - t0, verdict))
            meta.setdefault('detected_by', {})[c + ':' + tier] = {'verdict': verdict, 'violations_listed': nv, 'first': first[:300]}
    finally:
        sh('git -C /repo worktree remove --force %s' % wt)
    json.dump(meta, open(os.path.join(dst, 'meta.json'), 'w'), indent=1)
    return 0


def runall(tier='quick', jobs=3):
    import concurrent.futures
    ids = sorted(d for d in os.listdir(SEEDED) if os.path.exists(os.path.join(SEEDED, d, 'meta.json')))
    with concurrent.futures.ThreadPoolExecutor(jobs) as ex:
        list(ex.map(lambda sid: run_wt(sid, [], tier), ids))


def table():
    for sid in sorted(os.listdir(SEEDED)):
        try:
            meta = json.load(open(os.path.join(SEEDED, sid, 'meta.json')))
        except (OSError, ValueError):
            continue
        det = meta.get('detected_by', {})
        print('| %s | %s | %s | %s |' % (sid, meta.get('property'), (meta.get('summary') or '')[:110].replace('|', '/'),
                                       ', '.join('%s %s' % (k, v['verdict']) for k, v in sorted(det.items())) or '-'))


if __name__ == '__main__':
    cmd = sys.argv[1]
    if cmd == 'verify':
        sys.exit(verify(sys.argv[2], sys.argv[3]))
    if cmd == 'run':
        args = [a for a in sys.argv[3:] if not a.startswith('--')]
        tier = 'thorough' if '--thorough' in sys.argv else 'quick'
        sys.exit(run(sys.argv[2], args, tier))
    if cmd == 'table':
        table()
    if cmd == 'runwt':
        args = [a for a in sys.argv[3:] if not a.startswith('--')]
        sys.exit(run_wt(sys.argv[2], args, 'thorough' if '--thorough' in sys.argv else 'quick'))
    if cmd == 'runall':
        runall('thorough' if '--thorough' in sys.argv else 'quick')
