#!/bin/bash
# tools/mutant.sh <check id> <python snippet file that edits /repo>  -> applies, runs baseline tests + check, reverts
id=$1; snippet=$2
cd /repo && git diff --quiet || { echo "repo dirty"; exit 9; }
python3 "$snippet" || { git -C /repo checkout -- .; exit 8; }
t=$(cd /repo && /venv/bin/python -m pytest -q -p no:cacheprovider --timeout=900 -x 2>&1 | tail -1)
echo "baseline: $t"
cd /verif && ./check $id 2>&1 | cut -c1-300 | grep -v "^  detail" | tail -4
git -C /repo checkout -- .
