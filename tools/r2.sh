#!/bin/bash
# tools/r2.sh <Cxx>: verify the round-2 sub-agent mutants of one property and run its check against each (scratch worktrees)
p=$1
for k in m1 m2 m3; do
  [ -f /tmp/wt/out2_$p/$k/patch.diff ] || continue
  echo -n "$p-r2$k: "; python3 /verif/tools/seed.py verify /tmp/wt/out2_$p/$k $p-r2$k | tail -1
  [ -d /verif/seeded/$p-r2$k ] && python3 /verif/tools/seed.py runwt $p-r2$k
done
git -C /repo worktree remove --force /tmp/wt/r2_$p 2>/dev/null
