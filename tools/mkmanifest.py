#!/usr/bin/env python3
"""Regenerate /verif/MANIFEST.json from the check modules that exist (run with /venv/bin/python)."""
import importlib, json, os, sys
ROOT = os.path.dirname(os.path.dirname(os.path.abspath(__file__)))
sys.path.insert(0, ROOT)
props = [json.loads(l) for l in open(os.path.join(ROOT, 'properties.jsonl'))]
NA = {}
na_file = os.path.join(ROOT, 'tools', 'not_applicable.json')
if os.path.exists(na_file):
    NA = json.load(open(na_file))
checks, na = [], []
for p in props:
    pid = p['id']
    path = os.path.join(ROOT, 'vf', 'checks', pid.lower() + '.py')
    if not os.path.exists(path) or pid in NA:
        na.append({'property_id': pid, 'reason': NA.get(pid, 'check not built yet (planned in DESIGN.md section 3); no claim is made')})
        continue
    src = open(path).read()
    ns = {}
    # metadata constants only (no import of yaml needed)
    import ast
    tree = ast.parse(src)
    for node in tree.body:
        if isinstance(node, ast.Assign) and len(node.targets) == 1 and isinstance(node.targets[0], ast.Name):
            if node.targets[0].id in ('LEVEL', 'LEVEL_TEXT', 'LEVEL_NOTE', 'TECHNIQUE', 'DESIGN_REF'):
                ns[node.targets[0].id] = eval(compile(ast.Expression(node.value), path, 'eval'), {'__builtins__': {}})     # string constants, possibly joined with +
    checks.append({
        'property_id': pid,
        'quick_cmd': './check %s --tier quick' % pid,
        'thorough_cmd': './check %s --tier thorough' % pid,
        'evidence_file': 'evidence/%s.json' % pid,
        'replay_cmd_template': './check %s --replay {path}' % pid,
        'engine': 'vf',
        'level_claimed': {'category': ns['LEVEL'], 'text': ns['LEVEL_TEXT'], 'design_ref': ns['DESIGN_REF']},
        'level_note': ns['LEVEL_NOTE'],
        'technique': ns['TECHNIQUE'],
    })
m = {
    'version': 1,
    'setup_cmd': './setup.sh',
    'hooks': {
        'guard': 'PYYAML_VERIF',
        'enable': 'no source hooks: every monitor is attached from the harness (sys.monitoring, audit hooks, method wrapping, instrumented streams); checks run the working tree of /repo via PYTHONPATH with a fresh byte-code cache and rebuild the LibYAML glue from yaml/_yaml.c',
        'baseline_off_cmd': 'cd /repo && /venv/bin/python -m pytest -ra -q -p no:cacheprovider --timeout=900 --continue-on-collection-errors',
        'source_commits': [],
        'add_only': True,
    },
    'engines': [{'name': 'vf', 'path': 'vf/', 'serves_properties': [c['property_id'] for c in checks],
                 'kind_free_text': 'runtime monitoring framework: sharded worker subprocesses running the real code in /repo under generators, interpreter-event monitors, instrumented streams, fault injection, reference models and sanitizer builds'}],
    'checks': checks,
    'notes': 'Exit codes: 0 held on everything explored (KNOWN-FINDING lines allowed), 1 VIOLATION, 2 INCONCLUSIVE (deciding monitor observed nothing). Known findings: known_findings.json. Seeded breaks: seeded/.',
    'not_applicable': na,
}
json.dump(m, open(os.path.join(ROOT, 'MANIFEST.json'), 'w'), indent=1)
print('checks:', [c['property_id'] for c in checks], 'not claimed:', [n['property_id'] for n in na])
