#!/bin/bash
# Offline setup: optional contract libraries beside the repo's interpreter, and a warm extension cache.
cd "$(dirname "$0")"
if [ ! -d .deps/icontract ]; then
  /venv/bin/pip install --quiet --no-index --find-links /opt/veriftools/wheels --target .deps icontract deal >/dev/null 2>&1 || echo "note: icontract/deal not installed (optional)"
fi
PYTHONPATH="$PWD" /venv/bin/python -m vf.cext || true
exit 0
