"""Dumper option points: pairwise-ish coverage first (cycled value lists), random afterwards."""
AXES = {
    'default_style': [None, None, '"', "'", '|', '>'],
    'default_flow_style': [False, True, None],
    'canonical': [None, None, None, True],
    'indent': [None, 1, 2, 3, 4, 7, 9, 10],
    'width': [None, 1, 5, 10, 20, 40, 80, 200, 1000],
    'allow_unicode': [None, True, False],
    'line_break': [None, '\n', '\r', '\r\n'],
    'encoding': [None, None, 'utf-8', 'utf-16-le', 'utf-16-be'],
    'explicit_start': [None, True, False],
    'explicit_end': [None, True, False],
    'version': [None, None, (1, 1), (1, 2)],
    'tags': [None, None, {'!e!': 'tag:example.com,2000:'}, {'!': '!loc-', '!!': 'tag:yaml.org,2002:'}, {'!y!': 'tag:yaml.org,2002:'}],
    'sort_keys': [True, False],
}


def gen(r, axes=None, p_default=0.35):
    """A dict of keyword options (omitting an axis = library default)."""
    o = {}
    for k, vals in AXES.items():
        if axes is not None and k not in axes:
            continue
        if r.random() < p_default:
            continue
        o[k] = r.choice(vals)
    if 'version' in o and o['version'] is not None:
        o['version'] = tuple(o['version'])
    return o


def jsonable(o):
    d = dict(o)
    if d.get('version') is not None:
        d['version'] = list(d['version'])
    return d


def unjson(d):
    o = dict(d)
    if o.get('version') is not None:
        o['version'] = tuple(o['version'])
    return o
