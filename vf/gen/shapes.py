"""G-obj: a family of classes, one per reduction shape of the copy/pickle protocol, plus a recipe format for
object graphs over them (JSON-able spec -> graph), with sharing and post-hoc cycle edges.

spec = {'nodes': [[kind, args...], ...], 'root': i, 'cycles': [[holder index, target index], ...]}
Node i may reference nodes j < i only (by index): sharing is explicit, cycles come from 'cycles' (applied after
the build on holders that can be mutated afterwards).
"""
import collections
import datetime
import decimal
import enum
import fractions
import os.path


class Plain:
    """instance dict"""

    def __init__(self, **kw):
        self.__dict__.update(kw)


class Slots:
    __slots__ = ('a', 'b')

    def __init__(self, a=None, b=None):
        self.a, self.b = a, b


class SlotsDict:
    __slots__ = ('a', '__dict__')

    def __init__(self, a=None, **kw):
        self.a = a
        self.__dict__.update(kw)


class SlotsSetstate:
    """slots only, with __setstate__ taking the protocol-2 default state (None, {slot: value})"""
    __slots__ = ('a', 'b', 'log')

    def __init__(self, a=None, b=None):
        self.a, self.b, self.log = a, b, 'init'

    def __setstate__(self, state):
        if not (isinstance(state, tuple) and len(state) == 2):
            raise ValueError('SlotsSetstate expects the (dict-state, slots-state) pair, got %r' % (type(state).__name__,))
        for k, v in (state[1] or {}).items():
            setattr(self, k, v)
        self.log = 'setstate'


class StateDict:
    def __init__(self, x=None, y=None):
        self.x, self.y, self.cache = x, y, 'volatile'

    def __getstate__(self):
        return {'x': self.x, 'y': self.y}

    def __setstate__(self, state):
        self.x, self.y = state['x'], state['y']
        self.cache = 'restored'


class StateTuple:
    def __init__(self, x=None, y=None):
        self.x, self.y = x, y

    def __getstate__(self):
        return (self.x, self.y)

    def __setstate__(self, state):
        self.x, self.y = state


class NewArgs(tuple):
    """tuple subclass rebuilt through __getnewargs__ + instance dict"""

    def __new__(cls, p, q):
        self = tuple.__new__(cls, (p, q))
        return self

    def __getnewargs__(self):
        return (self[0], self[1])


class NewArgsInt(int):
    def __new__(cls, v, label=None):
        self = int.__new__(cls, v)
        self.label = label
        return self

    def __getnewargs__(self):
        return (int(self),)


class ReduceState:
    def __init__(self, n):
        self.n = n
        self.extra = None

    def __reduce__(self):
        return (ReduceState, (self.n,), {'extra': self.extra})


class ReduceList(list):
    def __init__(self, tag='t'):
        list.__init__(self)
        self.tag = tag

    def __reduce__(self):
        return (ReduceList, (self.tag,), None, iter(self))


class ReduceDict(dict):
    def __init__(self, tag='t'):
        dict.__init__(self)
        self.tag = tag

    def __reduce__(self):
        return (ReduceDict, (self.tag,), None, None, iter(self.items()))


class IndexedDict(dict):
    """dict subclass whose __setitem__ keeps a reverse index: dict items must be replayed through __setitem__"""

    def __init__(self):
        dict.__init__(self)
        self.reverse = {}

    def __setitem__(self, k, v):
        dict.__setitem__(self, k, v)
        try:
            self.reverse[v] = k
        except TypeError:
            pass

    def __reduce__(self):
        return (IndexedDict, (), None, None, iter(list(dict.items(self))))


class Table:
    """mapping-like, not a dict: only __setitem__"""

    def __init__(self):
        self.rows = {}
        self.writes = 0

    def __setitem__(self, k, v):
        self.rows[k] = v
        self.writes += 1

    def __reduce__(self):
        return (Table, (), None, None, iter(list(self.rows.items())))


import dataclasses


@dataclasses.dataclass(frozen=True)
class Frozen:
    """frozen dataclass: attribute assignment raises; pickle restores it through __dict__"""
    a: object = None
    b: object = None


class Tracking:
    """records every attribute assignment: state restored through setattr() would leave other traces than pickle's __dict__ update"""

    def __init__(self, a=None, b=None):
        object.__setattr__(self, 'changes', 0)
        self.a, self.b = a, b

    def __setattr__(self, k, v):
        self.__dict__['changes'] = self.__dict__.get('changes', 0) + 1
        self.__dict__[k] = v


class PropShadow:
    """an instance-dict key with the name of a read-only property of the class"""

    def __init__(self, v=None):
        self.__dict__['size'] = v

    @property
    def size(self):
        return ('property', self.__dict__.get('size'))


class KwNew(int):
    """keyword-only __new__ arguments: __getnewargs_ex__"""

    def __new__(cls, *, value=0, label=None):
        self = int.__new__(cls, value)
        self.label = label
        return self

    def __getnewargs_ex__(self):
        return ((), {'value': int(self), 'label': self.label})


class MyList(list):
    pass


class MyDict(dict):
    pass


class MyStr(str):
    pass


class MyInt(int):
    pass


class Color(enum.Enum):
    RED = 1
    GREEN = 2


class Level(enum.IntEnum):
    LOW = 1
    HIGH = 2


Point = collections.namedtuple('Point', ['x', 'y'])


def func(x):
    return x


class WithClassRef:
    def __init__(self, cls=None, fn=None):
        self.cls, self.fn = cls, fn


class CallableObj:
    """plain instance whose class defines __call__: callable(instance) is true, yet it is an ordinary object"""

    def __init__(self, a=None, b=None):
        self.a, self.b = a, b

    def __call__(self, *args):
        return self.a


def _size(x):
    return len(x) if isinstance(x, (list, dict, set, tuple, frozenset, collections.deque)) else None


class EagerState:
    """__setstate__ that looks into its state at once (a summary computed on restore)"""

    def __init__(self, items=None):
        self.items, self.seen = items, _size(items)

    def __getstate__(self):
        return {'items': self.items}

    def __setstate__(self, state):
        self.items, self.seen = state['items'], _size(state['items'])


class Snapshot:
    """constructor arguments consumed at once: __reduce__ -> (cls, (src,))"""

    def __init__(self, src=None):
        self.src, self.size = src, _size(src)

    def __reduce__(self):
        return (Snapshot, (self.src,))


class FalsyState:
    """__reduce__ with a state that is false in a boolean context: pickle calls __setstate__ for every state but None"""
    STATES = [{}, 0, '', False, (), [], 0.0, {'k': 1}, 5, 'x', (1, 2)]
    N_FALSY = 7

    def __init__(self, n=0, which=0):
        self.n, self.which, self.restored = n, which, 'never'

    def __reduce__(self):
        return (FalsyState, (self.n, self.which), FalsyState.STATES[self.which])

    def __setstate__(self, state):
        self.restored = ('called', repr(state))


class FreshArgs:
    """every reduction builds its argument and its state afresh, and neither is a list / tuple / dict / set: temporaries that
    live only as long as somebody keeps them"""

    def __init__(self, c=0j):
        self.c, self.tags = c, frozenset()

    def __reduce__(self):
        return (FreshArgs, (complex(self.c.real + 0.0, self.c.imag),), frozenset(x for x in self.tags))

    def __setstate__(self, state):
        self.tags = state


class EagerChild(EagerState):
    """inherits __setstate__ (and __getstate__) without defining them"""


from . import shapes2

BY_NAME = {'Plain2': shapes2.Plain, 'func2': shapes2.func, 'Color2': shapes2.Color, 'Plain': Plain, 'func': func, 'Color': Color, 'len': len, 'os.path': os.path, 'datetime': datetime, 'dict': dict, 'Point': Point,
           'collections.OrderedDict': collections.OrderedDict, 'os.path.join': os.path.join}
KINDS_MUTABLE_AFTER = {'plain2', 'callable', 'plain', 'list', 'dict', 'slotsdict', 'mylist', 'mydict', 'statedict', 'reducestate', 'odict', 'deque', 'slots', 'reducelist', 'reducedict'}
PLAIN_CYCLE_KINDS = {'plain', 'list', 'dict', 'callable', 'plain2'}          # cycles through these only must be preserved
ATOMS = ['abc', '', 'two words', 'a\nb', 'yes', '1', 0, 1, -7, 2 ** 70, 1.5, float('inf'), True, False, None, b'bytes', b'']


def gen_spec(r, max_nodes=12, cycles=True, names=True):
    """Random recipe.  Returns (spec, classes)."""
    nodes = []
    classes = set()

    def ref(scalar_ok=True):
        if nodes and r.random() < 0.55:
            return r.randrange(len(nodes))
        nodes.append(['atom', r.randrange(len(ATOMS))])
        return len(nodes) - 1

    def hashable_ref():
        c = [i for i, n in enumerate(nodes) if n[0] in ('atom', 'enum', 'intenum', 'name')]
        if c and r.random() < 0.7:
            return r.choice(c)
        nodes.append(['atom', r.randrange(len(ATOMS))])
        return len(nodes) - 1
    kinds = ['plain', 'plain', 'list', 'dict', 'tuple', 'slots', 'slotsdict', 'slotssetstate', 'statedict', 'statetuple', 'newargs', 'newargsint', 'reducestate',
             'reducelist', 'reducedict', 'indexeddict', 'table', 'mylist', 'mydict', 'mystr', 'myint', 'enum', 'intenum', 'namedtuple', 'complex', 'set', 'frozenset',
             'odict', 'deque', 'defaultdict', 'bytearray', 'range', 'decimal', 'fraction', 'timedelta', 'date', 'withclassref', 'frozen', 'tracking', 'propshadow', 'kwnew',
             'callable', 'eagerstate', 'snapshot', 'falsystate', 'freshargs', 'freshargs', 'eagerchild', 'plain2', 'plain2']
    if names:
        kinds += ['name', 'name']
    for _ in range(r.randint(1, max_nodes)):
        k = r.choice(kinds)
        classes.add('shape:' + k)
        if k in ('plain', 'slotsdict', 'statedict', 'slots', 'slotssetstate', 'statetuple', 'newargs', 'withclassref', 'frozen', 'tracking', 'callable', 'plain2'):
            a, b = ref(), ref()
            nodes.append([k, a, b])
        elif k == 'propshadow':
            nodes.append([k, ref(), ref()])
        elif k in ('eagerstate', 'snapshot', 'eagerchild'):
            nodes.append([k, ref()])
        elif k == 'falsystate':
            nodes.append([k, r.randint(0, 9), r.randrange(len(FalsyState.STATES))])
        elif k == 'freshargs':
            nodes.append([k, r.randint(0, 99)])
        elif k == 'kwnew':
            nodes.append([k, r.choice([0, 5, -2])])
        elif k in ('list', 'tuple', 'mylist', 'reducelist', 'deque'):
            nodes.append([k, [ref() for _ in range(r.randint(0, 3))]])
        elif k in ('dict', 'mydict', 'reducedict', 'odict', 'defaultdict', 'indexeddict', 'table'):
            ks = []
            used, usedv = [], []
            for _ in range(r.randint(0, 3)):
                kk = hashable_ref()
                key_obj = build({'nodes': nodes, 'root': kk})
                if any(key_obj == u for u in used):
                    continue              # pairwise distinct keys (a mapping node cannot carry duplicates; 0 == False)
                vv = ref() if k != 'indexeddict' else hashable_ref()
                if k == 'indexeddict':
                    val_obj = build({'nodes': nodes, 'root': vv})
                    if any(val_obj == u for u in usedv):
                        continue          # the reverse index must not depend on the replay order
                    usedv.append(val_obj)
                used.append(key_obj)
                ks.append([kk, vv])
            nodes.append([k, ks])
        elif k in ('set', 'frozenset'):
            nodes.append([k, [hashable_ref() for _ in range(r.randint(0, 3))]])
        elif k in ('newargsint', 'myint'):
            nodes.append([k, r.choice([0, 5, -3, 2 ** 40])])
        elif k == 'mystr':
            nodes.append([k, r.choice(['', 'text', 'a b', '1'])])
        elif k == 'reducestate':
            nodes.append([k, r.randint(0, 9), ref()])
        elif k in ('enum', 'intenum'):
            nodes.append([k, r.choice([1, 2])])
        elif k == 'namedtuple':
            nodes.append([k, ref(), ref()])
        elif k == 'complex':
            nodes.append([k, r.choice([[1.5, -2.0], [0.0, 1.0], [3.0, 0.0], [-0.0, 0.0]])])
        elif k == 'bytearray':
            nodes.append([k, r.choice(['', '00ff', '616263'])])
        elif k == 'range':
            nodes.append([k, r.choice([[0, 5, 1], [3, 30, 4], [0, 0, 1]])])
        elif k == 'decimal':
            nodes.append([k, r.choice(['1.50', '-0', '1E+5', 'NaN'][:3])])
        elif k == 'fraction':
            nodes.append([k, r.choice([[1, 3], [-7, 2], [0, 1]])])
        elif k == 'timedelta':
            nodes.append([k, r.choice([[0, 0, 1], [5, 3600, 0], [-1, 0, 500000]])])
        elif k == 'date':
            nodes.append([k, r.choice([[2001, 1, 1], [1999, 12, 31]])])
        elif k == 'name':
            nodes.append([k, r.choice(sorted(BY_NAME))])
    spec = {'nodes': nodes, 'root': len(nodes) - 1, 'cycles': []}
    # make everything reachable: wrap in a list when the last node does not reach the others (cheap: always wrap sometimes)
    if r.random() < 0.5:
        nodes.append(['list', list(range(len(nodes)))])
        spec['root'] = len(nodes) - 1
    if cycles and r.random() < 0.35:
        holders = [i for i, n in enumerate(nodes) if n[0] in KINDS_MUTABLE_AFTER]
        for _ in range(r.randint(1, 2)):
            if holders:
                h = r.choice(holders)
                t = r.randrange(len(nodes))
                if t >= h or reaches(nodes, t, h) or True:
                    spec['cycles'].append([h, t])
                    classes.add('cycle_edge')
    return spec, classes


def children(n):
    k = n[0]
    if k in ('plain', 'slotsdict', 'statedict', 'slots', 'slotssetstate', 'statetuple', 'newargs', 'withclassref', 'namedtuple', 'frozen', 'tracking', 'callable', 'plain2'):
        return [n[1], n[2]]
    if k in ('propshadow', 'eagerstate', 'snapshot', 'eagerchild'):
        return [n[1]]
    if k in ('list', 'tuple', 'mylist', 'reducelist', 'deque', 'set', 'frozenset'):
        return list(n[1])
    if k in ('dict', 'mydict', 'reducedict', 'odict', 'defaultdict', 'indexeddict', 'table'):
        return [x for p in n[1] for x in p]
    if k == 'reducestate':
        return [n[2]]
    return []


def reaches(nodes, a, b):
    seen = set()
    todo = [a]
    while todo:
        x = todo.pop()
        if x == b:
            return True
        if x in seen:
            continue
        seen.add(x)
        todo.extend(children(nodes[x]))
    return False


def cycle_kinds(spec):
    """For each cycle edge (holder -> target): the set of node kinds on the cycles it closes, or None if it closes none."""
    out = []
    nodes = spec['nodes']
    edges = {i: list(children(n)) for i, n in enumerate(nodes)}
    for h, t in spec['cycles']:
        edges[h].append(t)
    for h, t in spec['cycles']:
        # nodes on some path t ->* h (using all edges incl. the other back edges)
        fwd = reach_set(edges, t)
        if h not in fwd:
            out.append(None)
            continue
        rev = {}
        for a, bs in edges.items():
            for b in bs:
                rev.setdefault(b, []).append(a)
        back = reach_set(rev, h)
        on = fwd & back
        out.append({nodes[i][0] for i in on})
    return out


DEEP_KINDS = {'eagerchild', 'eagerstate', 'snapshot', 'falsystate', 'kwnew', 'slots', 'slotsdict', 'slotssetstate', 'statedict', 'statetuple', 'newargs', 'newargsint', 'reducestate', 'reducelist', 'reducedict', 'indexeddict', 'table',
              'mylist', 'mydict', 'namedtuple', 'odict', 'deque', 'defaultdict', 'frozenset', 'withclassref'}


def plain_cycle_under_deep(spec):
    """Is there a cycle through plain kinds only that is reachable from a node whose arguments/state are built by deep
    construction (python/object/apply|new, __setstate__)?  (mechanism of known finding F20)"""
    nodes = spec['nodes']
    edges = {i: list(children(n)) for i, n in enumerate(nodes)}
    for h, t in spec['cycles']:
        edges[h].append(t)
    rev = {}
    for a, bs in edges.items():
        for b in bs:
            rev.setdefault(b, []).append(a)
    for h, t in spec['cycles']:
        fwd = reach_set(edges, t)
        if h not in fwd:
            continue
        on = fwd & reach_set(rev, h)
        if not {nodes[i][0] for i in on} <= PLAIN_CYCLE_KINDS:
            continue
        above = reach_set(rev, h) - on
        if any(nodes[i][0] in DEEP_KINDS for i in above):
            return True
    return False


def reach_set(edges, a):
    seen = set()
    todo = [a]
    while todo:
        x = todo.pop()
        if x in seen:
            continue
        seen.add(x)
        todo.extend(edges.get(x, []))
    return seen


def build(spec):
    nodes = spec['nodes']
    o = [None] * len(nodes)
    leaf = {'freshargs', 'atom', 'mystr', 'myint', 'newargsint', 'kwnew', 'enum', 'intenum', 'complex', 'bytearray', 'range', 'decimal', 'fraction', 'timedelta', 'date', 'name'}
    order = [i for i, n in enumerate(nodes) if n[0] in leaf] + [i for i, n in enumerate(nodes) if n[0] not in leaf]
    for i in order:
        n = nodes[i]
        k = n[0]
        if k == 'atom':
            o[i] = ATOMS[n[1]]
        elif k == 'plain':
            o[i] = Plain(a=o[n[1]], b=o[n[2]])
        elif k == 'callable':
            o[i] = CallableObj(o[n[1]], o[n[2]])
        elif k == 'eagerstate':
            o[i] = EagerState(o[n[1]])
        elif k == 'eagerchild':
            o[i] = EagerChild(o[n[1]])
        elif k == 'plain2':
            o[i] = shapes2.Plain(a=o[n[1]], b=o[n[2]])
        elif k == 'snapshot':
            o[i] = Snapshot(o[n[1]])
        elif k == 'falsystate':
            o[i] = FalsyState(n[1], n[2])
        elif k == 'freshargs':
            o[i] = FreshArgs(complex(n[1], n[1] + 1))
            o[i].tags = frozenset([n[1], n[1] + 1000])
        elif k == 'slots':
            o[i] = Slots(o[n[1]], o[n[2]])
        elif k == 'slotsdict':
            o[i] = SlotsDict(o[n[1]], extra=o[n[2]])
        elif k == 'slotssetstate':
            o[i] = SlotsSetstate(o[n[1]], o[n[2]])
        elif k == 'statedict':
            o[i] = StateDict(o[n[1]], o[n[2]])
        elif k == 'frozen':
            o[i] = Frozen(o[n[1]], o[n[2]])
        elif k == 'tracking':
            o[i] = Tracking(o[n[1]], o[n[2]])
        elif k == 'propshadow':
            o[i] = PropShadow(o[n[1]])
        elif k == 'kwnew':
            o[i] = KwNew(value=n[1], label='kw')
        elif k == 'statetuple':
            o[i] = StateTuple(o[n[1]], o[n[2]])
        elif k == 'newargs':
            o[i] = NewArgs(o[n[1]], o[n[2]])
        elif k == 'withclassref':
            o[i] = WithClassRef(r_cls(n[1]), func if n[2] % 2 else len)
        elif k == 'list':
            o[i] = [o[j] for j in n[1]]
        elif k == 'tuple':
            o[i] = tuple(o[j] for j in n[1])
        elif k == 'mylist':
            o[i] = MyList(o[j] for j in n[1])
            o[i].note = 'n'
        elif k == 'reducelist':
            o[i] = ReduceList('rl')
            o[i].extend(o[j] for j in n[1])
        elif k == 'deque':
            o[i] = collections.deque(o[j] for j in n[1])
        elif k in ('dict', 'mydict', 'odict', 'reducedict', 'defaultdict', 'indexeddict', 'table'):
            d = {'dict': dict, 'mydict': MyDict, 'odict': collections.OrderedDict, 'reducedict': lambda: ReduceDict('rd'),
                 'defaultdict': lambda: collections.defaultdict(list), 'indexeddict': IndexedDict, 'table': Table}[k]()
            for kk, vv in n[1]:
                d[o[kk]] = o[vv]
            o[i] = d
        elif k == 'set':
            o[i] = set(o[j] for j in n[1])
        elif k == 'frozenset':
            o[i] = frozenset(o[j] for j in n[1])
        elif k == 'newargsint':
            o[i] = NewArgsInt(n[1], 'lbl')
        elif k == 'myint':
            o[i] = MyInt(n[1])
        elif k == 'mystr':
            o[i] = MyStr(n[1])
        elif k == 'reducestate':
            o[i] = ReduceState(n[1])
            o[i].extra = o[n[2]]
        elif k == 'enum':
            o[i] = Color(n[1])
        elif k == 'intenum':
            o[i] = Level(n[1])
        elif k == 'namedtuple':
            o[i] = Point(o[n[1]], o[n[2]])
        elif k == 'complex':
            o[i] = complex(*n[1])
        elif k == 'bytearray':
            o[i] = bytearray(bytes.fromhex(n[1]))
        elif k == 'range':
            o[i] = range(*n[1])
        elif k == 'decimal':
            o[i] = decimal.Decimal(n[1])
        elif k == 'fraction':
            o[i] = fractions.Fraction(*n[1])
        elif k == 'timedelta':
            o[i] = datetime.timedelta(*n[1])
        elif k == 'date':
            o[i] = datetime.date(*n[1])
        elif k == 'name':
            o[i] = BY_NAME[n[1]]
    for h, t in spec.get('cycles', []):
        x, y = o[h], o[t]
        k = nodes[h][0]
        if k in ('plain', 'slotsdict', 'statedict', 'reducestate', 'callable', 'plain2'):
            setattr(x, 'x' if k == 'statedict' else ('extra' if k == 'reducestate' else 'back'), y)
        elif k == 'slots':
            x.b = y
        elif k in ('list', 'mylist', 'reducelist', 'deque'):
            x.append(y)
        elif k in ('dict', 'mydict', 'odict', 'reducedict'):
            x['back'] = y
    return o[spec['root']]


def r_cls(i):
    return [Plain, Color, dict, Point][i % 4]


ATOM_SUBCLASS_KINDS = {'mystr', 'myint', 'newargsint', 'intenum', 'kwnew'}


def truthy_states(spec):
    """Counterfactual for F25: every FalsyState node whose state is false in a boolean context gets a truthy state instead."""
    nodes = [list(n) for n in spec['nodes']]
    changed = False
    for n in nodes:
        if n[0] == 'falsystate' and n[2] < FalsyState.N_FALSY:
            n[2] = FalsyState.N_FALSY
            changed = True
    return {'nodes': nodes, 'root': spec['root'], 'cycles': spec.get('cycles', [])}, changed


EAGER_KINDS = {'snapshot', 'eagerstate', 'eagerchild'}
TWO_PHASE_CONTAINERS = {'plain2', 'list', 'dict', 'set', 'mylist', 'mydict', 'plain', 'callable', 'slotsdict', 'tracking', 'frozen', 'propshadow', 'withclassref'}


def remap(n, m):
    """node with its references mapped through m"""
    n = list(n)
    k = n[0]
    if k in ('plain', 'slotsdict', 'statedict', 'slots', 'slotssetstate', 'statetuple', 'newargs', 'withclassref', 'namedtuple', 'frozen', 'tracking', 'callable', 'plain2'):
        if k != 'withclassref':
            n[1], n[2] = m[n[1]], m[n[2]]
    elif k in ('propshadow', 'eagerstate', 'snapshot', 'eagerchild'):
        n[1] = m[n[1]]
        if k == 'propshadow':
            n[2] = m[n[2]]
    elif k in ('list', 'tuple', 'mylist', 'reducelist', 'deque', 'set', 'frozenset'):
        n[1] = [m[j] for j in n[1]]
    elif k in ('dict', 'mydict', 'reducedict', 'odict', 'defaultdict', 'indexeddict', 'table'):
        n[1] = [[m[a], m[b]] for a, b in n[1]]
    elif k == 'reducestate':
        n[2] = m[n[2]]
    return n


def privatize(spec):
    """Counterfactual for F26: every eager reader (Snapshot, EagerState) gets a private copy of the container it is given,
    written inline below it, instead of an alias to a container that occurs earlier in the document."""
    old = spec['nodes']
    edges = {i: list(children(n)) for i, n in enumerate(old)}
    for h, t in spec.get('cycles', []):
        edges[h].append(t)
    rev = {}
    for a, bs in edges.items():
        for b in bs:
            rev.setdefault(b, []).append(a)

    def in_deep_context(i):
        # the arguments of python/object/apply are built in deep mode at once; the state of a class with __setstate__ is built
        # when its queued second phase runs - after the earlier containers have been filled - unless the node itself lies
        # below a deep-constructed node, which runs that second phase at once
        if old[i][0] == 'snapshot':
            return True
        return any(old[a][0] in DEEP_KINDS for a in reach_set(rev, i) - {i})
    # document order (first visit in a depth-first walk from the root, children in written order)
    first, stack = {}, [spec['root']]
    while stack:
        x = stack.pop()
        if x in first:
            continue
        first[x] = len(first)
        stack.extend(reversed(edges.get(x, [])))

    def filled_later(i):
        # the container is written inside the eager reader (its first occurrence) and aliased again further on: the alias
        # creates it - empty, its filling queued behind the reader's own second phase - before that second phase runs
        c = old[i][1]
        return first.get(c, 0) > first.get(i, 0) and len(rev.get(c, [])) >= 2
    m, copy_at, pos = {}, {}, 0
    for i, n in enumerate(old):
        if n[0] in EAGER_KINDS and old[n[1]][0] in TWO_PHASE_CONTAINERS and (in_deep_context(i) or filled_later(i)):
            copy_at[i] = pos
            pos += 1
        m[i] = pos
        pos += 1
    new = []
    for i, n in enumerate(old):
        if i in copy_at:
            new.append(remap(old[n[1]], m))
            m2 = dict(m)
            m2[n[1]] = copy_at[i]
            new.append(remap(n, m2))
        else:
            new.append(remap(n, m))
    return {'nodes': new, 'root': m[spec['root']], 'cycles': [[m[h], m[t]] for h, t in spec.get('cycles', [])]}, bool(copy_at)


def unshare(spec, kinds=ATOM_SUBCLASS_KINDS):
    """Counterfactual for F19: every reference to an instance of a str/int subclass gets its own copy of the node."""
    nodes = [list(n) for n in spec['nodes']]
    count = {}

    def fresh(j):
        if nodes[j][0] in kinds:
            count[j] = count.get(j, 0) + 1
            if count[j] > 1:
                nodes.append(list(nodes[j]))
                return len(nodes) - 1
        return j
    import copy
    n0 = len(nodes)
    for i in range(n0):
        n = nodes[i]
        k = n[0]
        if k in ('plain', 'slotsdict', 'statedict', 'slots', 'slotssetstate', 'statetuple', 'newargs', 'withclassref', 'namedtuple', 'frozen', 'tracking', 'callable', 'plain2'):
            n[1], n[2] = fresh(n[1]), fresh(n[2])
        elif k in ('propshadow', 'eagerstate', 'snapshot', 'eagerchild'):
            n[1] = fresh(n[1])
        elif k in ('list', 'tuple', 'mylist', 'reducelist', 'deque', 'set', 'frozenset'):
            n[1] = [fresh(j) for j in n[1]]
        elif k in ('dict', 'mydict', 'reducedict', 'odict', 'defaultdict', 'indexeddict', 'table'):
            n[1] = [[fresh(a), fresh(b)] for a, b in n[1]]
        elif k == 'reducestate':
            n[2] = fresh(n[2])
    cyc = [[h, fresh(t)] for h, t in spec.get('cycles', [])]
    return {'nodes': nodes, 'root': spec['root'], 'cycles': cyc}, bool(count and max(count.values()) > 1)
