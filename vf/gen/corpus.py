"""The repository's own test corpus as raw material, and mutators (character and byte level)."""
import os

from .. import core
from . import strings as S

DATA = os.path.join(core.REPO, 'tests', 'legacy_tests', 'data')
_cache = {}


def files(max_size=4096, exts=None):
    key = (max_size, tuple(exts) if exts else None)
    if key in _cache:
        return _cache[key]
    out = []
    try:
        names = sorted(os.listdir(DATA))
    except OSError:
        names = []
    for n in names:
        if exts and not n.endswith(tuple(exts)):
            continue
        if n.endswith(('.code', '.py', '.skip-ext', '.tokens', '.structure', '.detect', '.path', '.marks', '.sorted', '.events')):
            continue
        p = os.path.join(DATA, n)
        try:
            b = open(p, 'rb').read()
        except OSError:
            continue
        if 0 < len(b) <= max_size:
            out.append((n, b))
    if not out:
        # corpus absent: a tiny built-in one keeps the generators alive
        out = [('builtin-%d' % i, t.encode()) for i, t in enumerate(BUILTIN)]
    _cache[key] = out
    return out

BUILTIN = ['a: 1\nb: [x, y, {z: w}]\n', '--- &a\n- *a\n- !!str "q\\n"\n...\n', '%YAML 1.1\n%TAG !e! tag:e.com,2000:\n--- !e!x\n? |\n  lit\n: >-\n  fold\n  ed\n',
           "- 'it''s'\n- \"\\x41\\u263a\"\n- key: value # c\n  k2:\n  - a\n  - b\n"]

ALPHA = list('-?:,[]{}#&*!|>\'"%@`') + [' ', ' ', '\n', '\n', '\t', 'a', '0', '\\', '<', '=', '~', '.', '\r', S.NEL, S.LS, S.BOM, '\x00', '\x7f', chr(0xe9)]


def mutate_text(r, t, n=None):
    """1..n random character-level edits."""
    for _ in range(n or r.choice([1, 1, 1, 2, 3, 6])):
        if not t:
            t = r.choice(ALPHA)
            continue
        op = r.random()
        i = r.randrange(len(t) + 1)
        if op < 0.3:
            t = t[:i] + r.choice(ALPHA) + t[i:]
        elif op < 0.55:
            j = min(len(t), i + r.choice([1, 1, 2, 5, 20]))
            t = t[:i] + t[j:]
        elif op < 0.75:
            t = t[:i] + r.choice(ALPHA) + t[i + 1:]
        elif op < 0.85:
            j = r.randrange(len(t) + 1)
            a, b = min(i, j), max(i, j)
            t = t[:a] + t[a:b] * 2 + t[b:]          # duplicate a slice
        elif op < 0.93:
            j = r.randrange(len(t) + 1)
            k = r.randrange(len(t) + 1)
            a, b = min(j, k), max(j, k)
            t = t[:i] + t[a:b][:80] + t[i:]         # splice from elsewhere
        else:
            t = t[:i]                               # truncate
    return t[:6000]


BYTE_ALPHA = [b'\x00', b'\x80', b'\xbf', b'\xc0', b'\xc1', b'\xc2', b'\xe0', b'\xed\xa0\x80', b'\xef\xbb\xbf', b'\xf0', b'\xf4\x90\x80\x80',
              b'\xf5', b'\xfe', b'\xff', b'\xff\xfe', b'\xfe\xff', b'\xe2\x80\xa8', b'\xc2\x85', b'\n', b' ', b'"', b'\\', b'a', b'\r']


def mutate_bytes(r, b, n=None):
    for _ in range(n or r.choice([1, 1, 2, 3])):
        i = r.randrange(len(b) + 1)
        op = r.random()
        if op < 0.4:
            b = b[:i] + r.choice(BYTE_ALPHA) + b[i:]
        elif op < 0.6:
            b = b[:i] + b[i + r.choice([1, 1, 2, 3]):]
        elif op < 0.8 and b:
            i = min(i, len(b) - 1)
            b = b[:i] + bytes([b[i] ^ (1 << r.randrange(8))]) + b[i + 1:]
        elif op < 0.9:
            b = b[:i]
        else:
            b = b[:i] + bytes(r.randrange(256) for _ in range(r.randint(1, 6))) + b[i:]
    return b[:8000]
