"""G-doc: abstract document model + renderer to text that is valid *by construction* in the portable
YAML 1.1 subset.  The renderer chooses every encoding (escapes, folding, chomping, indentation) itself,
so the expected event stream is known without running PyYAML: a third reference besides the two
back-ends.  Special characters are spelled with chr() only.

Portable subset (where the two scanners are known to differ by design, nothing is generated): no tabs
as separators, no BOM inside the stream, tag characters [A-Za-z0-9/_.:-], only %YAML and %TAG
directives, no '?' inside flow plain scalars, a comment after a block scalar header is preceded by a
space, no own-line comment directly after a block scalar, LS/PS used as structural breaks only to end a comment.
"""
NEL, LS, PS = chr(0x85), chr(0x2028), chr(0x2029)


class S:
    kind = 's'

    def __init__(s, value, style, tag=None, anchor=None):
        s.value, s.style, s.tag, s.anchor = value, style, tag, anchor


class Q:
    kind = 'q'

    def __init__(s, items, flow, tag=None, anchor=None):
        s.items, s.flow, s.tag, s.anchor = items, flow, tag, anchor


class M:
    kind = 'm'

    def __init__(s, pairs, flow, tag=None, anchor=None):
        s.pairs, s.flow, s.tag, s.anchor = pairs, flow, tag, anchor


class A:
    kind = 'a'

    def __init__(s, name):
        s.name = name


class Doc:
    def __init__(s, root, explicit_start=None, explicit_end=False, version=None, tags=None):
        s.root, s.es, s.ee, s.version, s.tags = root, explicit_start, explicit_end, version, tags


PLAIN = ['a', 'b', 'key', 'value', 'yes', 'No', 'true', '1', '-12', '0x1F', '1.5', '.inf', '~', 'null', '2001-01-01', '1:30',
         'a b', 'two words here', 'x-y', 'a.b', 'http://x/y', 'a:b', 'x#y', '-a', 'e1', '007', '<<x', '=x', 'a/b',
         'caf' + chr(0xe9), chr(0x4e2d) + chr(0x6587)]
WORDS = ['alpha', 'beta', 'x', 'yy', 'caf' + chr(0xe9), '1', '-', "it's", 'say"hi"', 'back\\slash', 'a:b', '#no', 'k: v',
         '[x]', '{y}', 'a,b', '&c', '*d', '!e', '%f', '@g', '|', '>']
DQ = ['a', 'b', ' ', '"', '\\', '\n', '\t', chr(0xe9), chr(0x263a), chr(0x1F600), '\x07', '\x00', NEL, LS, PS, chr(0xa0), ':', '#',
      "'", '/', 'x', 'y z']
PLAIN_ML = ['one\ntwo', 'p q\n\nr', 'first line\nsecond line\n\n\nlast', 'a b c d e f']     # multi-line plain (block context only)
CORE = 'tag:yaml.org,2002:'


class Gen:
    """Random models.  p_* knobs let a check bias the shapes it cares about."""

    def __init__(self, rnd, max_depth=4, p_alias=0.1, p_anchor=0.15, p_tag=0.25, max_docs=3, tags=True,
                 core_tags_only=False, plain_pool=None, empty_keys=True):
        self.r = rnd
        self.max_depth = max_depth
        self.p_alias, self.p_anchor, self.p_tag = p_alias, p_anchor, (p_tag if tags else 0.0)
        self.max_docs = max_docs
        self.core_tags_only = core_tags_only
        self.empty_keys = empty_keys
        self.plain_pool = plain_pool or PLAIN
        self.classes = set()

    def stream(self, ndocs=None):
        r = self.r
        docs = []
        n = ndocs if ndocs is not None else r.choice([1, 1, 1, 2, 3][:2 + self.max_docs])
        for i in range(n):
            docs.append(self.document())
        if n > 1:
            self.classes.add('multidoc')
        return docs

    def document(self):
        r = self.r
        self.anchors = []
        self.na = 0
        self.handles = {}
        version = (1, 1) if r.random() < 0.15 else None
        if self.p_tag and not self.core_tags_only:
            if r.random() < 0.2:
                self.handles = {'!e!': 'tag:example.com,2000:'}
            if r.random() < 0.05:
                self.handles['!'] = '!my-'
        if version:
            self.classes.add('%YAML')
        if self.handles:
            self.classes.add('%TAG')
        root = self.node(0)
        return Doc(root, None, r.random() < 0.3, version, dict(self.handles) or None)

    def tag_for(self, kind):
        r = self.r
        if r.random() >= self.p_tag:
            return None
        c = r.random()
        core = {'s': [CORE + 'str', CORE + 'int', CORE + 'foo'], 'q': [CORE + 'seq', CORE + 'set', CORE + 'omap'],
                'm': [CORE + 'map', CORE + 'set']}[kind]
        if self.core_tags_only:
            return r.choice(core[:2] if kind != 's' else core[:1])
        self.classes.add('tag')
        if c < 0.35:
            t = '!' + r.choice(['local', 'Foo', 'a-b', 'x.y', 'p/q', 'n1'])
            if '!' in self.handles:
                t = self.handles['!'] + t[1:]
            return t
        if c < 0.7:
            return r.choice(core)
        if c < 0.85 and '!e!' in self.handles:
            return self.handles['!e!'] + r.choice(['t1', 'x/y', 'T'])
        return 'tag:example.org,2011:' + r.choice(['a', 'b/c', 'd.e'])

    def anchor(self):
        if self.r.random() < self.p_anchor:
            self.na += 1
            self.classes.add('anchor')
            return self.r.choice(['a', 'anc', 'x-1', 'A_b']) + str(self.na)

    def scalar(self, key=False, flow=False):
        r = self.r
        c = r.random()
        anchor = self.anchor()
        tag = self.tag_for('s')
        if c < 0.4 or ((key or flow) and c >= 0.75):
            v = r.choice(self.plain_pool) if r.random() < 0.95 else ''
            if v == '' and (flow or key):
                v = 'w'
            if not flow and not key and r.random() < 0.07:
                v = r.choice(PLAIN_ML)
                self.classes.add('plain_multiline')
            n = S(v, 'plain', tag, anchor)
        elif c < 0.55:
            n = S(' '.join(r.choice(WORDS) for _ in range(r.randint(0, 4))), 'single', tag, anchor)
        elif c < 0.75:
            n = S(''.join(r.choice(DQ) for _ in range(r.randint(0, 10))), 'double', tag, anchor)
        elif c < 0.88:
            lines = [r.choice(['', 'line', 'two words', '  indented', 'x: y', '# not comment', '- item', 'tab\there', 'trail  ',
                               'zz']) for _ in range(r.randint(1, 4))]
            if lines[0] == '':
                lines[0] = 'first'
            if lines[-1] == '':
                lines[-1] = 'last'
            chomp = r.choice(['strip', 'clip', 'keep'])
            v = '\n'.join(lines) + {'strip': '', 'clip': '\n', 'keep': '\n' * r.randint(1, 3)}[chomp]
            n = S(v, 'literal', tag, anchor)
            n.lines = lines
            n.chomp = chomp
        else:
            paras = [[r.choice(['w', 'word', 'xx', 'a:b', '#x', '-', 'k: v']) for _ in range(r.randint(1, 5))]
                     for _ in range(r.randint(1, 3))]
            seps = [r.randint(1, 2) for _ in range(len(paras) - 1)]
            chomp = r.choice(['strip', 'clip', 'keep'])
            v = ''
            for i, p in enumerate(paras):
                v += ' '.join(p)
                if i < len(seps):
                    v += '\n' * seps[i]
            v += {'strip': '', 'clip': '\n', 'keep': '\n' * r.randint(1, 2)}[chomp]
            n = S(v, 'folded', tag, anchor)
            n.paras = paras
            n.seps = seps
            n.chomp = chomp
        self.classes.add('style:' + n.style)
        if anchor:
            self.anchors.append(anchor)
        return n

    def node(self, depth, flow=False, key=False):
        r = self.r
        if self.anchors and r.random() < self.p_alias:
            self.classes.add('alias')
            return A(r.choice(self.anchors))
        c = r.random()
        if depth >= self.max_depth or c < 0.45 or (key and c < 0.8):
            return self.scalar(key=key, flow=flow)
        anchor = self.anchor()
        early = anchor and r.random() < 0.5          # registered before the children: recursive aliases possible
        if early:
            self.anchors.append(anchor)
            self.classes.add('anchor_open')
        fl = flow or key or r.random() < 0.3
        if c < 0.72:
            n = Q([], fl, self.tag_for('q'), anchor)
            n.items = [self.node(depth + 1, fl) for _ in range(r.randint(0, 3))]
            self.classes.add('flowseq' if fl else 'blockseq')
            if fl:
                # single-pair mappings written without braces inside a flow sequence: [a: b], [? a : b], [? a], [?]
                for it in n.items:
                    if isinstance(it, M) and len(it.pairs) == 1 and not it.anchor and not it.tag and r.random() < 0.6:
                        it.sp = True
                        self.classes.add('flow_single_pair')
                if self.empty_keys and r.random() < 0.06:
                    it = M([(S('', 'plain'), S(r.choice(['', 'v', '1']), 'plain'))], True)
                    it.sp = True
                    n.items.insert(r.randint(0, len(n.items)), it)
                    self.classes.add('flow_single_pair_empty_key')
        else:
            n = M([], fl, self.tag_for('m'), anchor)
            for _ in range(r.randint(0, 3)):
                k = self.node(depth + 1, fl, key=True) if r.random() < 0.85 else self.node(depth + 1, fl)
                if not isinstance(k, (S, A)):
                    self.classes.add('complexkey')
                n.pairs.append((k, self.node(depth + 1, fl)))
            self.classes.add('flowmap' if fl else 'blockmap')
        if anchor and not early:
            self.anchors.append(anchor)
        return n


STY = {'plain': '', 'single': "'", 'double': '"', 'literal': '|', 'folded': '>'}


def node_events(n, out):
    if isinstance(n, A):
        out.append(('Alias', n.name))
        return
    if isinstance(n, S):
        imp = (True, False) if (n.style == 'plain' and n.tag is None) else ((False, True) if n.tag is None else (False, False))
        out.append(('Scalar', n.anchor, n.tag, imp, n.value, STY[n.style]))
        return
    if isinstance(n, Q):
        out.append(('SeqStart', n.anchor, n.tag, n.tag is None, bool(n.flow) or not n.items))
        for i in n.items:
            node_events(i, out)
        out.append(('SeqEnd',))
        return
    out.append(('MapStart', n.anchor, n.tag, n.tag is None, bool(n.flow) or not n.pairs))
    for k, v in n.pairs:
        node_events(k, out)
        node_events(v, out)
    out.append(('MapEnd',))


def ev_tuple(e):
    """A real PyYAML event in the form node_events()/Render.stream() predict."""
    n = type(e).__name__[:-5]
    if n in ('StreamStart', 'StreamEnd'):
        return (n,)
    if n == 'DocumentStart':
        return ('DocStart', bool(e.explicit), tuple(e.version) if e.version else None, dict(e.tags) if e.tags else None)
    if n == 'DocumentEnd':
        return ('DocEnd', bool(e.explicit))
    if n == 'Alias':
        return ('Alias', e.anchor)
    if n == 'Scalar':
        return ('Scalar', e.anchor, e.tag, tuple(bool(x) for x in e.implicit), e.value, e.style or '')
    if n == 'SequenceStart':
        return ('SeqStart', e.anchor, e.tag, bool(e.implicit), bool(e.flow_style))
    if n == 'MappingStart':
        return ('MapStart', e.anchor, e.tag, bool(e.implicit), bool(e.flow_style))
    return (n.replace('Sequence', 'Seq').replace('Mapping', 'Map'),)


class Render:
    def __init__(self, rnd, br='\n', comments=True):
        self.r = rnd
        self.br = br
        self.comments = comments
        self.tail_bs = False         # the text written last is a block scalar (no own-line comment may follow)

    def cbr(self, after_comment):
        """The break that ends a line.  A comment may also be ended by LS or PS (a line break for both scanners; outside
        scalars no folding rule depends on which break it is)."""
        if after_comment and self.r.random() < 0.3:
            return self.r.choice([LS, PS])
        return self.br

    def stream(self, docs):
        """Returns (text, expected event tuples).  self.doc_ends: offset just after each document's text."""
        out = []
        exp = [('StreamStart',)]
        self.doc_ends = []
        pos = 0
        for i, d in enumerate(docs):
            self.handles = d.tags or {}
            empty_plain_root = isinstance(d.root, S) and d.root.style == 'plain' and d.root.value == '' and not d.root.tag \
                and not d.root.anchor
            need_explicit = bool(d.version or d.tags) or i > 0 or empty_plain_root or d.es is True or \
                (d.es is None and self.r.random() < 0.3)
            part = []
            if d.version:
                part.append('%%YAML %d.%d' % tuple(d.version) + self.br)
            for h, p in sorted((d.tags or {}).items()):
                part.append('%TAG ' + h + ' ' + p + self.br)
            es = need_explicit
            part.append(self.block(d.root, -1, '---' if need_explicit else ''))
            if self.r.random() < 0.3:
                part.append(self.gap() or (self.br if (not self.tail_bs and self.r.random() < 0.3) else ''))
            last = i == len(docs) - 1
            nxt = docs[i + 1] if not last else None
            ee = bool(d.ee) or (nxt is not None and bool(nxt.version or nxt.tags))
            if ee:
                part.append('...' + self.br)
                self.tail_bs = False
            d.es_rendered, d.ee_rendered = es, ee
            text = ''.join(part)
            pos += len(text)
            self.doc_ends.append(pos)
            out.append(text)
            exp.append(('DocStart', es, tuple(d.version) if d.version else None, dict(d.tags) if d.tags else None))
            node_events(d.root, exp)
            exp.append(('DocEnd', ee))
        exp.append(('StreamEnd',))
        return ''.join(out), exp

    def props(self, n):
        p = []
        if n.anchor:
            p.append('&' + n.anchor)
        if n.tag:
            t = n.tag
            s = None
            for h, pre in sorted(self.handles.items(), key=lambda kv: -len(kv[1])):
                if t.startswith(pre) and len(t) > len(pre):
                    s = h + t[len(pre):]
                    break
            if s is None:
                if t.startswith(CORE) and self.r.random() < 0.8:
                    s = '!!' + t[len(CORE):]
                elif t.startswith('!') and '!' not in self.handles:
                    s = t
                else:
                    s = '!<' + t + '>'
            p.append(s)
        if self.r.random() < 0.5:
            p.reverse()
        return ' '.join(p)

    def dq(self, v, indent, oneline):
        out = ['"']
        for ch in v:
            o = ord(ch)
            if ch == '"':
                out.append('\\"')
            elif ch == '\\':
                out.append('\\\\')
            elif ch == '\n':
                out.append('\\n')
            elif ch == '\t':
                out.append('\\t')
            elif ch == '\x00':
                out.append('\\0')
            elif ch == '\x07':
                out.append('\\a')
            elif ch == NEL:
                out.append('\\N')
            elif ch == LS:
                out.append('\\L')
            elif ch == PS:
                out.append('\\P')
            elif ch == chr(0xa0):
                out.append(self.r.choice(['\\_', ch]))
            elif ch == '/':
                out.append(self.r.choice(['\\/', '/']))
            elif o > 0xffff:
                out.append(self.r.choice(['\\U%08X' % o, ch]))
            elif o > 0x7e:
                out.append(self.r.choice(['\\u%04X' % o, ch] + (['\\x%02X' % o] if o < 256 else [])))
            elif ch == ' ' and not oneline and self.r.random() < 0.2:
                out.append('\\' + self.br + ' ' * (indent + self.r.randint(1, 3)) + '\\ ')
            else:
                out.append(ch)
        out.append('"')
        return ''.join(out)

    def fold(self, text, indent, oneline, p=0.25):
        """Line folding of plain / single-quoted text: a single space between two non-space characters may become
        break + indentation; an embedded LF is written as a break followed by one blank line per LF."""
        r = self.r
        pad = lambda: self.br + ' ' * (max(indent, 0) + r.randint(1, 3))
        if oneline:
            return text
        out = []
        i = 0
        n = len(text)
        while i < n:
            ch = text[i]
            if ch == '\n':
                j = i
                while j < n and text[j] == '\n':
                    j += 1
                out.append(self.br * (j - i) + pad())
                i = j
                continue
            if ch == ' ' and 0 < i < n - 1 and text[i - 1] not in ' \n' and text[i + 1] not in ' \n' and r.random() < p:
                out.append(pad())
            else:
                out.append(ch)
            i += 1
        return ''.join(out)

    def inline(self, n, indent, oneline):
        if n.style == 'plain':
            if '\n' in n.value or (' ' in n.value and not oneline):
                return self.fold(n.value, indent, oneline)
            return n.value
        if n.style == 'single':
            return "'" + self.fold(n.value.replace("'", "''"), indent, oneline or '\n' in n.value, p=0.15) + "'"
        return self.dq(n.value, max(indent, 0), oneline)

    def gap(self):
        """Blank lines between structural lines (never directly after a block scalar: there they are content)."""
        if not self.tail_bs and self.r.random() < 0.06:
            return self.br * self.r.randint(1, 2)
        return ''

    def block_scalar(self, n, indent):
        base = max(indent, 0)
        k = self.r.randint(1, 3)
        ind = base + k
        first = n.lines[0] if n.style == 'literal' else n.paras[0][0]
        ii = str(k) if (first.startswith(' ') or self.r.random() < 0.2) else ''
        ch = {'strip': '-', 'clip': '', 'keep': '+'}[n.chomp]
        hdr = ('|' if n.style == 'literal' else '>') + ((ch + ii) if self.r.random() < 0.5 else (ii + ch))
        if self.comments and self.r.random() < 0.2:
            hdr += ' # c'
        pad = ' ' * ind
        ntrail = len(n.value) - len(n.value.rstrip('\n'))
        if n.style == 'literal':
            lines = [pad + l if l else '' for l in n.lines]
        else:
            lines = []
            for i, p in enumerate(n.paras):
                cur = p[0]
                for w in p[1:]:
                    if self.r.random() < 0.3:
                        lines.append(pad + cur)
                        cur = w
                    else:
                        cur += ' ' + w
                lines.append(pad + cur)
                if i < len(n.seps):
                    lines.extend([''] * n.seps[i])
        tail = self.br * (ntrail if n.chomp == 'keep' else self.r.randint(1, 2))
        self.tail_bs = True
        return hdr + self.br + self.br.join(lines) + tail

    def flow(self, n, indent, oneline=False):
        r = self.r
        if oneline:
            sp = lambda: r.choice(['', ' '])
        else:
            sp = lambda: r.choice(['', ' ', ' ', self.br + ' ' * (max(indent, 0) + r.randint(1, 4))])
        if isinstance(n, A):
            return '*' + n.name
        p = self.props(n)
        if isinstance(n, S):
            body = self.inline(n, indent, True)
            return (p + ' ' + body) if p else body
        pre = (p + ' ') if p else ''
        if isinstance(n, Q):
            parts = [self.single_pair(i, indent, oneline) if getattr(i, 'sp', False) else self.flow(i, indent, oneline) for i in n.items]
            return pre + '[' + sp() + (',' + sp()).join(x + (' ' if x.startswith('*') else '') for x in parts) + \
                (r.choice(['', ',']) if parts else '') + sp() + ']'
        parts = []
        for k, v in n.pairs:
            ks = self.flow(k, indent, True)
            vs = self.flow(v, indent, oneline)
            simple = isinstance(k, (S, A)) and len(ks) < 100
            if simple and r.random() < 0.8:
                parts.append(ks + (' ' if (isinstance(k, A) or k.style == 'plain') else r.choice(['', ' '])) + ': ' + vs +
                             (' ' if vs.startswith('*') else ''))
            else:
                parts.append('? ' + ks + ' : ' + vs + (' ' if vs.startswith('*') else ''))
        return pre + '{' + sp() + (',' + sp()).join(parts) + sp() + '}'

    def single_pair(self, n, indent, oneline):
        """A one-pair mapping written without braces as an item of a flow sequence."""
        r = self.r
        k, v = n.pairs[0]
        kempty = isinstance(k, S) and k.style == 'plain' and k.value == '' and not k.tag and not k.anchor
        vempty = isinstance(v, S) and v.style == 'plain' and v.value == '' and not v.tag and not v.anchor
        ks = '' if kempty else self.flow(k, indent, True)
        vs = '' if vempty else self.flow(v, indent, oneline)
        tail = ' ' if vs.startswith('*') else ''
        if kempty:
            return '?' + ('' if vempty else ' : ' + vs + tail)
        if vempty:
            return '? ' + ks + (' ' if ks.startswith('*') else '')
        simple = isinstance(k, (S, A)) and len(ks) < 100 and '\n' not in ks
        if simple and r.random() < 0.7:
            return ks + (' ' if (isinstance(k, A) or k.style == 'plain') else r.choice(['', ' '])) + ': ' + vs + tail
        return '? ' + ks + ' : ' + vs + tail

    def block(self, n, indent, prefix):
        r = self.r
        br = self.br
        sep = ' ' if prefix else ''
        lead = (prefix + sep) if prefix else ''
        if isinstance(n, A):
            self.tail_bs = False
            return lead + '*' + n.name + br
        p = self.props(n)
        if isinstance(n, S):
            if n.style in ('literal', 'folded'):
                return lead + ((p + ' ') if p else '') + self.block_scalar(n, indent)
            self.tail_bs = False
            body = self.inline(n, indent, False)
            if n.style == 'plain' and body == '':
                return (prefix + ((' ' + p) if p else '')) + br if prefix else (p + br)
            cm = ' # cm' if (self.comments and r.random() < 0.1) else ''
            return lead + ((p + ' ') if p else '') + body + cm + self.cbr(cm)
        empty = not (n.items if isinstance(n, Q) else n.pairs)
        if n.flow or empty:
            self.tail_bs = False
            cm = ' # cm' if (self.comments and r.random() < 0.1) else ''
            return lead + self.flow(n, indent) + cm + self.cbr(cm)
        out = []
        if prefix or p:
            out.append((prefix + ((' ' + p) if p else '')) + br if prefix else p + br)
            self.tail_bs = False
        if indent < 0:
            ind = 0
        else:
            ind = indent + r.randint(1, 3)
        if isinstance(n, Q):
            if indent >= 0 and prefix.rstrip().endswith(':') and r.random() < 0.3:
                ind = indent          # indentless sequence as a mapping value
            for it in n.items:
                if self.comments and not self.tail_bs and r.random() < 0.05:
                    out.append(' ' * r.randint(0, 6) + '# own-line comment' + self.cbr(True))
                out.append(self.block(it, ind, ' ' * ind + '-'))
                out.append(self.gap())
        else:
            for k, v in n.pairs:
                ks = None
                if isinstance(k, A):
                    ks = '*' + k.name + ' '
                elif isinstance(k, S) and k.style in ('plain', 'single', 'double') and not (k.style == 'plain' and (k.value == '' or '\n' in k.value)):
                    kp = self.props(k)
                    ks = ((kp + ' ') if kp else '') + self.inline(k, ind, True) + (' ' if r.random() < 0.2 else '')
                elif isinstance(k, (Q, M)) and (k.flow or not (k.items if isinstance(k, Q) else k.pairs)):
                    f = self.flow(k, ind, True)
                    if len(f) < 100:
                        ks = f + (' ' if r.random() < 0.5 else '')
                if ks is not None and len(ks) < 120 and r.random() < 0.85:
                    out.append(self.block(v, ind, ' ' * ind + ks + ':'))
                else:
                    out.append(self.block(k, ind, ' ' * ind + '?'))
                    out.append(self.block(v, ind, ' ' * ind + ':'))
                out.append(self.gap())
        return ''.join(out)


def gen_stream(r, br=None, **kw):
    """One random stream: (text, expected events, docs, classes, doc_ends)."""
    g = Gen(r, **kw)
    docs = g.stream()
    if br is None:
        br = r.choice(['\n', '\n', '\n', '\r\n', '\r', NEL])
    rd = Render(r, br)
    text, exp = rd.stream(docs)
    g.classes.add('br:' + {'\n': 'LF', '\r\n': 'CRLF', '\r': 'CR', NEL: 'NEL'}.get(br, '?'))
    return text, exp, docs, g.classes, rd.doc_ends
