"""G-str: strings by class.  Special characters are spelled with chr() only (tool input mangles
literal NEL/LS/PS/BOM and \\u escapes)."""
NEL, LS, PS, BOM, NBSP = chr(0x85), chr(0x2028), chr(0x2029), chr(0xFEFF), chr(0xA0)
BREAKS = ['\n', '\r', '\r\n', NEL, LS, PS]
INDICATORS = list('-?:,[]{}#&*!|>\'"%@`')
LOOKALIKES = ['yes', 'No', 'TRUE', 'false', 'on', 'Off', 'y', 'n', '~', 'null', 'Null', '', '<<', '=', '1', '-1', '+1', '0',
              '0x1F', '0x_', '0b101', '0b_', '010', '0o10', '1_000', '1:30', '1:30:00', '190:20:30.15', '1.5', '.5', '1.',
              '1e3', '1.0e+3', '1.5e-3', '.inf', '-.INF', '.nan', '.NaN', '2001-01-01', '2001-1-1', '2001-01-01 10:00:00',
              '2001-01-01T10:00:00Z', '2001-12-14t21:59:43.10-05:00', '2001-13-41', '1e', '1e+', '-', '--', '---', '...',
              '--- a', '... a', '- a', '? a', ': a', 'a: b', 'a:b', 'a #b', 'a#b', '#a', '!a', '&a', '*a', '%a', '@a', '`a',
              '[a', ']a', '{a', '}a', ',a', 'a,b', 'a[', '|', '>', '|a', '>a', "'a", '"a', "a'b", 'a"b', '\\', 'a\\b',
              '0.0', '-0.0', '1e17', '1e-7', 'infinity', 'nan', 'NaN', 'None', 'True', '!!str', 'tag:x', '1 2', '12e03',
              '1.e+3', '0.1_5', '+.inf', '0:0', '1:60', '0_', '_0', '0b', '0x', '00', '08', '0o', '.', '..', '._', '.e1']
WORDS = ['a', 'b', 'ab', 'abc', 'word', 'two', 'lorem', 'ipsum', 'x' * 9, 'y' * 17, 'z' * 40, 'caf' + chr(0xe9),
         chr(0x4e2d) + chr(0x6587), 'k:v', '#c', '-', 'it\'s', 'a"b', '1', 'yes']
ODD = ['\t', '\x00', '\x01', '\x07', '\x08', '\x0b', '\x0c', '\x1b', '\x1f', '\x7f', chr(0x80), chr(0x84), NEL, chr(0x86),
       chr(0x9f), NBSP, chr(0xad), chr(0xd7ff), chr(0xe000), chr(0xfffd), chr(0xfffe), chr(0xffff), chr(0x10000),
       chr(0x1F600), chr(0x10ffff), BOM, LS, PS, chr(0xe9), chr(0x263a), chr(0x3b1)]
SURROGATES = [chr(0xd800), chr(0xdbff), chr(0xdc00), chr(0xdfff)]

# characters Python calls white space / line boundaries but YAML does not (str.isspace, str.splitlines, str.strip)
PYSPACE = [NBSP, chr(0x1680), chr(0x2000), chr(0x2003), chr(0x2009), chr(0x200a), chr(0x202f), chr(0x205f), chr(0x3000),
           '\x0b', '\x0c', '\x1c', '\x1d', '\x1e', '\x1f', chr(0x200b)]
CLASSES = ['lookalike', 'indicator', 'words', 'breaks', 'odd', 'spaces', 'indented', 'longwords', 'mixed', 'tiny', 'tabs',
           'multiline', 'trailing', 'leading_break', 'pyspace', 'long_lookalike', 'wide_run']


def long_lookalike(r):
    """text of another type's form that is longer than any small cut-off (128, 256, 1024)"""
    n = r.choice([100, 127, 128, 129, 130, 200, 255, 256, 257, 400, 590])
    form = r.randrange(12)
    if form == 0:
        s = r.choice('123456789') + ''.join(r.choice('0123456789') for _ in range(n))
    elif form == 1:
        s = '0x' + ''.join(r.choice('0123456789abcdefABCDEF') for _ in range(n))
    elif form == 2:
        s = '0b' + ''.join(r.choice('01') for _ in range(n))
    elif form == 3:
        s = '1' + '_1' * (n // 2)
    elif form == 4:
        s = r.choice('123456789') + '0' * n + '.5'
    elif form == 5:
        s = '1:' + ':'.join(r.choice(['30', '5', '59', '00']) for _ in range(n // 3))
    elif form == 6:
        s = '0' + ''.join(r.choice('01234567') for _ in range(n))
    elif form == 7:
        s = '1.' + '0' * n + 'e+3'
    elif form == 8:
        s = '.' + '5' * n
    elif form == 9:
        s = '2001-01-01 10:00:00.' + '1' * n
    elif form == 10:
        s = r.choice(['-', '+']) + '7' * n
    else:
        s = '1' * n + r.choice([' ', 'x', ':', ' #', '_', '.'])       # (no trailing line break: not a text a plain scalar can have)
    return s


def gen(r, cls=None, surrogates=False):
    """Returns (string, class name)."""
    cls = cls or r.choice(CLASSES)
    if cls == 'lookalike':
        s = r.choice(LOOKALIKES)
        if r.random() < 0.15:
            s = r.choice([' ', '', '\n', '-']) + s + r.choice([' ', '', '\n', ':'])
    elif cls == 'indicator':
        n = r.randint(1, 6)
        s = ''.join(r.choice(INDICATORS + ['a', ' ', ' ', '\n']) for _ in range(n))
    elif cls == 'words':
        s = ' '.join(r.choice(WORDS) for _ in range(r.randint(1, 30)))
    elif cls == 'breaks':
        s = ''.join(r.choice(BREAKS + ['a', 'bc', ' ', 'd e']) for _ in range(r.randint(1, 12)))
    elif cls == 'odd':
        pool = ODD + (SURROGATES if surrogates else [])
        s = ''.join(r.choice(pool + ['a', ' ', 'b', '\n']) for _ in range(r.randint(1, 10)))
    elif cls == 'spaces':
        s = ''.join(r.choice([' ', '  ', 'a', 'bb', '\n', ' \n', '\n ']) for _ in range(r.randint(1, 14)))
    elif cls == 'indented':
        # more-indented lines: where folded style must not fold
        lines = []
        for _ in range(r.randint(1, 5)):
            ind = ' ' * r.choice([0, 0, 1, 2, 4])
            lines.append(ind + ' '.join(r.choice(WORDS) for _ in range(r.randint(1, 12))))
        s = '\n'.join(lines) + r.choice(['', '\n', '\n\n'])
    elif cls == 'longwords':
        s = ' '.join(r.choice(['x', 'y']) * r.randint(1, 120) for _ in range(r.randint(1, 8)))
    elif cls == 'tiny':
        s = ''.join(r.choice(INDICATORS + [' ', '\n', 'a', '0', '\t', NEL, '\\', '"', "'"]) for _ in range(r.randint(0, 3)))
    elif cls == 'tabs':
        s = ''.join(r.choice(['\t', ' ', 'a', 'b c', '\n', '\t\n', '\n\t']) for _ in range(r.randint(1, 10)))
    elif cls == 'multiline':
        s = '\n'.join(' '.join(r.choice(WORDS) for _ in range(r.randint(0, 10))) for _ in range(r.randint(2, 8)))
        s += r.choice(['', '\n', '\n\n', '\n\n\n'])
    elif cls == 'trailing':
        s = r.choice(WORDS) + r.choice([' ', '  ', '\n', '\n\n', ' \n', '\n ', '\t', NEL, LS, '\r', '\r\n', '\n\r'])
    elif cls == 'leading_break':
        s = r.choice(['\n', '\n\n', ' \n', '\r\n', NEL, '\n ']) + r.choice(['', '', ' ', '  ', '    ']) + ' '.join(r.choice(WORDS) for _ in range(r.randint(1, 5)))
        if r.random() < 0.5:
            # a later line that is indented less than the first one (the block styles then need an explicit indentation indicator)
            s += r.choice(['\n', '\n\n']) + r.choice(['', '', ' ']) + ' '.join(r.choice(WORDS) for _ in range(r.randint(1, 4))) + r.choice(['', '\n'])
    elif cls == 'pyspace':
        lines = []
        for _ in range(r.randint(1, 5)):
            lead = r.choice(['', '', r.choice(PYSPACE), r.choice(PYSPACE) * 2, ' ' + r.choice(PYSPACE)])
            trail = r.choice(['', '', r.choice(PYSPACE)])
            lines.append(lead + ' '.join(r.choice(WORDS) for _ in range(r.randint(0, 8))) + trail)
        s = r.choice(['\n', '\n', '\n\n']).join(lines) + r.choice(['', '\n'])
    elif cls == 'long_lookalike':
        s = long_lookalike(r)
    elif cls == 'wide_run':
        # runs of characters whose written (escaped or doubled) form is much wider than the character
        ch = r.choice([chr(0x1F600), chr(0x10000), chr(0x10ffff), chr(0xe9), chr(0x4e2d), '\x07', '\x01', "'", '"', '\\', chr(0xfffe), NEL])
        s = ch * r.choice([60, 100, 103, 110, 122, 123, 127, 128, 129, 171, 172, 200, 256, 300, 520])
        if r.random() < 0.3:
            s = r.choice(['a', 'a b ', '- ']) + s
    else:   # mixed
        parts = []
        for _ in range(r.randint(1, 6)):
            parts.append(gen(r, r.choice(['lookalike', 'indicator', 'words', 'breaks', 'odd', 'spaces', 'tiny']), surrogates)[0])
        s = r.choice(['', ' ', '\n']).join(parts)
    if len(s) > 600:
        s = s[:600]
    return s, cls


def key_string(r):
    """short strings suitable as mapping keys (still hostile)."""
    c = r.random()
    if c < 0.4:
        return r.choice(WORDS)
    if c < 0.7:
        return r.choice(LOOKALIKES)
    if c < 0.8:
        return 'k' * r.choice([1, 100, 127, 128, 129, 200, 1023, 1024, 1025, 1100])
    if c < 0.86:
        return gen(r, r.choice(['wide_run', 'long_lookalike', 'pyspace']))[0]
    return gen(r, r.choice(['tiny', 'indicator', 'odd', 'breaks', 'words']))[0]
