"""G-val: values of the safe universe as a rebuildable recipe (JSON-able spec -> object graph).

spec = {'nodes': [node, ...], 'root': index}
node = ['s', str] | ['i', decimal str] | ['f', hex float | 'nan'] | ['b', hex] | ['d', [y,m,d]] |
       ['dt', [y,m,d,H,M,S,us, tz]]  (tz: None | offset seconds as int/float) | ['bool', 0/1] | ['none'] |
       ['list', [ref,...]] | ['dict', [[kref, vref],...]] | ['set', [ref,...]]
Containers are created empty first and filled afterwards, so any reference pattern (sharing,
diamonds, cycles) is expressible.  Keys and set members reference scalar nodes only.
"""
import datetime
import random

from . import strings as S


def _int(text):
    """int(text) for recipes, also beyond the interpreter's int <-> text limit (the recipe is ours, not an input of the library)"""
    try:
        return int(text)
    except ValueError:
        import sys
        lim = sys.get_int_max_str_digits()
        sys.set_int_max_str_digits(0)
        try:
            return int(text)
        finally:
            sys.set_int_max_str_digits(lim)


def _scalar(r, key=False, classes=None):
    c = r.random()
    if c < 0.5:
        if key:
            return ['s', S.key_string(r)], 'str'
        s, cls = S.gen(r, classes and r.choice(classes))
        return ['s', s], 'str:' + cls
    if c < 0.62:
        n = r.choice([0, 1, -1, 7, 255, -256, 2 ** 31, 2 ** 63, -2 ** 63 - 1, r.randint(-10 ** 6, 10 ** 6),
                      r.randint(-10 ** 59, 10 ** 59)])
        return ['i', str(n)], 'int'
    if c < 0.74:
        k = r.random()
        if k < 0.3:
            f = r.choice([0.0, -0.0, 1.0, -1.5, 1e17, 1e16, 1e-7, 1e22, 5e-324, 2.2250738585072014e-308,
                          1.7976931348623157e308, float('inf'), float('-inf'), float('nan'), 0.1, 1 / 3, 1e100, 123456789.0])
        elif k < 0.7:
            import struct
            f = struct.unpack('>d', r.getrandbits(64).to_bytes(8, 'big'))[0]
        else:
            f = r.uniform(-1e6, 1e6) * 10 ** r.randint(-20, 20)
        if key and f != f:
            f = 1.25
        return ['f', 'nan' if f != f else f.hex()], 'float'
    if c < 0.79:
        return ['bool', r.randint(0, 1)], 'bool'
    if c < 0.84:
        return ['none'], 'none'
    if c < 0.89:
        n = r.choice([0, 1, 2, 3, 10, 57, 58, 100])
        return ['b', r.randbytes(n).hex()], 'bytes'
    if c < 0.94:
        return ['d', [r.choice([1, 99, 1000, 1970, 2001, 9999]), r.randint(1, 12), r.randint(1, 28)]], 'date'
    tz = r.choice([None, None, None, 0, 0, 3600, -18000, 19800, 20700, -12600, 86340, -86340])
    if r.random() < 0.03:
        tz = r.choice([3601, -1, 59, 30.5])
    us = r.choice([0, 0, 1, 100000, 123456, 999999, 500])
    return ['dt', [r.choice([1, 1000, 1970, 2001, 9999]), r.randint(1, 12), r.randint(1, 28), r.randint(0, 23),
                   r.randint(0, 59), r.randint(0, 59), us, tz]], 'datetime' + ('' if tz is None else ':tz')


def gen_spec(r, max_nodes=14, max_depth=6, str_classes=None, cyclic=True, root_container=None):
    """Random graph spec.  Returns (spec, classes:set of shape-class names)."""
    nodes = []
    classes = set()
    ncont = r.choice([0, 1, 1, 2, 3, 4, 6]) if root_container is None else r.randint(1, 5)
    if r.random() < 0.08:
        ncont = r.randint(6, max_nodes)
    kinds = []
    for i in range(ncont):
        k = r.choice(['list', 'dict', 'dict', 'set']) if not (i == 0 and root_container) else root_container
        kinds.append(k)
        nodes.append([k, []])
    if ncont == 0:
        n, c = _scalar(r, classes=str_classes)
        classes.add(c)
        return {'nodes': [n], 'root': 0}, classes
    depth = {0: 0}

    def scalar(key=False):
        if not key and len(nodes) > ncont and r.random() < 0.12:
            # an equal but distinct twin of an earlier scalar (two equal dates, strings, ...): nothing is shared, so nothing may be aliased
            twin = r.choice(nodes[ncont:])
            nodes.append([twin[0]] + [list(x) if isinstance(x, list) else x for x in twin[1:]])
            classes.add('equal_twin')
            return len(nodes) - 1
        n, c = _scalar(r, key=key, classes=str_classes)
        classes.add(c)
        nodes.append(n)
        return len(nodes) - 1

    def child(i):
        # reference to a container: prefer later ones (tree-like), sometimes any (sharing / cycles)
        c = r.random()
        if ncont > 1 and c < 0.35:
            later = [j for j in range(i + 1, ncont)]
            if later:
                j = r.choice(later)
                if depth.get(i, 0) + 1 <= max_depth:
                    depth[j] = max(depth.get(j, 0), depth.get(i, 0) + 1)
                    return j
        if c < 0.42:
            j = r.randrange(ncont)
            if j <= i:
                if not cyclic:
                    return scalar()
                classes.add('cycle' if j == i else 'backref')
            else:
                classes.add('shared')
            return j
        return scalar()

    for i, k in enumerate(kinds):
        n = r.choice([0, 1, 2, 3, 3, 5, 8])
        if k == 'list':
            nodes[i][1] = [child(i) for _ in range(n)]
        elif k == 'dict':
            nodes[i][1] = [[scalar(key=True), child(i)] for _ in range(n)]
        else:
            nodes[i][1] = [scalar(key=True) for _ in range(n)]
        if n == 0:
            classes.add('empty_' + k)
    # make sure every container is reachable from the root: hang orphans into container 0
    reach = set()
    todo = [0]
    while todo:
        x = todo.pop()
        if x in reach or x >= ncont:
            continue
        reach.add(x)
        if kinds[x] == 'list':
            todo.extend(nodes[x][1])
        elif kinds[x] == 'dict':
            todo.extend(v for _, v in nodes[x][1])
    for j in range(1, ncont):
        if j not in reach:
            if kinds[0] == 'list':
                nodes[0][1].append(j)
            elif kinds[0] == 'dict':
                nodes[0][1].append([scalar(key=True), j])
            # a set root cannot hold containers: orphans stay unreachable (harmless)
    classes.add('root_' + kinds[0])
    return {'nodes': nodes, 'root': 0}, classes


def build(spec, perm_seed=None):
    """Materialise the graph.  perm_seed permutes dict/set insertion order (same contents)."""
    nodes = spec['nodes']
    objs = [None] * len(nodes)
    pr = random.Random(perm_seed) if perm_seed is not None else None
    for i, n in enumerate(nodes):
        t = n[0]
        if t == 's':
            objs[i] = n[1]
        elif t == 'i':
            objs[i] = _int(n[1])
        elif t == 'f':
            objs[i] = float('nan') if n[1] == 'nan' else float.fromhex(n[1])
        elif t == 'b':
            objs[i] = bytes.fromhex(n[1])
        elif t == 'd':
            objs[i] = datetime.date(*n[1])
        elif t == 'dt':
            y, mo, d, H, M, Sx, us, tz = n[1]
            tzinfo = None if tz is None else datetime.timezone(datetime.timedelta(seconds=tz))
            objs[i] = datetime.datetime(y, mo, d, H, M, Sx, us, tzinfo=tzinfo)
        elif t == 'bool':
            objs[i] = bool(n[1])
        elif t == 'none':
            objs[i] = None
        elif t == 'list':
            objs[i] = []
        elif t == 'dict':
            objs[i] = {}
        elif t == 'set':
            objs[i] = set()
    for i, n in enumerate(nodes):
        t = n[0]
        if t == 'list':
            objs[i].extend(objs[j] for j in n[1])
        elif t == 'dict':
            items = list(n[1])
            if pr:
                # keep "last one wins" semantics for equal keys: permute only when keys are pairwise distinct
                ks = [objs[k] for k, _ in items]
                try:
                    if len(set(ks)) == len(ks):
                        pr.shuffle(items)
                except TypeError:
                    pass
            for k, v in items:
                objs[i][objs[k]] = objs[v]
        elif t == 'set':
            items = list(n[1])
            if pr:
                pr.shuffle(items)
            for j in items:
                objs[i].add(objs[j])
    return objs[spec['root']]


def has_subminute_tz(spec):
    for n in spec['nodes']:
        if n[0] == 'dt' and n[1][7] is not None and n[1][7] % 60:
            return True
    return False
