"""Documents that sit exactly on the length limits the scanners and emitters know about (simple keys: 1024 characters
between the start of the key and its ':'; emitter: 128), in every spelling of a key."""


def simple_key_docs(lengths=None):
    """[(text, label)]: valid-looking mappings whose key / key+spaces / key+properties spans L characters up to the ':'."""
    out = []
    for L in (lengths or list(range(1019, 1030)) + [126, 127, 128, 129]):
        k = 'k' * L
        out += [
            (k + ': v\n', 'plain:%d' % L),
            ('k' * (L - 4) + '    : v\n', 'plain+spaces:%d' % L),
            ('"' + 'k' * (L - 2) + '": v\n', 'double:%d' % L),
            ("'" + 'k' * (L - 2) + "': v\n", 'single:%d' % L),
            ('&a ' + 'k' * (L - 3) + ': v\n', 'anchored:%d' % L),
            ('!t ' + 'k' * (L - 3) + ': v\n', 'tagged:%d' % L),
            ('{' + k + ': v}\n', 'flowmap:%d' % L),
            ('[' + k + ': v]\n', 'flowseq:%d' % L),
            ('{"' + 'k' * (L - 2) + '": v, b: c}\n', 'flowmap-double:%d' % L),
            ('a:\n  ' + k + ': v\n', 'nested:%d' % L),
            ('- ' + k + ': v\n  x: y\n', 'in-seq:%d' % L),
            ('? ' + k + '\n: v\n', 'explicit:%d' % L),
            ('[a, b]' + ' ' * (L - 6) + ': v\n', 'flowseq-key+spaces:%d' % L),
            (k + ':\n  - v\n', 'plain-blockvalue:%d' % L),
        ]
    return out
