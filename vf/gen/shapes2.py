"""A second module whose classes and functions carry the same names as those of gen.shapes: a name is (module, attribute),
never the attribute alone."""


class Plain:
    """same __name__ as shapes.Plain, another class"""

    def __init__(self, **kw):
        self.__dict__.update(kw)
        self.origin = 'shapes2'


def func(x):
    return ('shapes2', x)


class Color:
    RED = 'not an enum'
