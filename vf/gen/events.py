"""G-ev: well-formed event streams with attribute variation, as JSON-able specs that rebuild into yaml events.

spec event = [kind, attrs...]:
  ['SS'] ['SE'] ['DS', explicit, version|None, tags|None] ['DE', explicit] ['AL', anchor]
  ['SC', anchor, tag, [imp0, imp1], value, style] ['QS', anchor, tag, implicit, flow] ['QE'] ['MS', anchor, tag, implicit, flow] ['ME']
"""
import yaml

from . import strings as S

E9 = chr(0xe9)
TAG_PREFIXES = [None, None, {'!e!': 'tag:example.com,2000:'}, {'!u!': 'tag:' + E9 + 'x.org,2000:'}, {'!': '!my-'}, {'!!': 'tag:other.org,2002:'},
                {'!e!': 'tag:example.com,2000:', '!f-1!': '!loc/'}]


def build(spec):
    out = []
    for e in spec:
        k = e[0]
        if k == 'SS':
            out.append(yaml.StreamStartEvent())
        elif k == 'SE':
            out.append(yaml.StreamEndEvent())
        elif k == 'DS':
            out.append(yaml.DocumentStartEvent(explicit=e[1], version=tuple(e[2]) if e[2] else None, tags=dict(e[3]) if e[3] else None))
        elif k == 'DE':
            out.append(yaml.DocumentEndEvent(explicit=e[1]))
        elif k == 'AL':
            out.append(yaml.AliasEvent(e[1]))
        elif k == 'SC':
            out.append(yaml.ScalarEvent(e[1], e[2], tuple(e[3]), e[4], style=e[5]))
        elif k == 'QS':
            out.append(yaml.SequenceStartEvent(e[1], e[2], e[3], flow_style=e[4]))
        elif k == 'QE':
            out.append(yaml.SequenceEndEvent())
        elif k == 'MS':
            out.append(yaml.MappingStartEvent(e[1], e[2], e[3], flow_style=e[4]))
        elif k == 'ME':
            out.append(yaml.MappingEndEvent())
    return out


class Gen:
    def __init__(self, r, classes):
        self.r = r
        self.classes = classes

    def tag(self, kind, handles):
        """(tag, class)"""
        r = self.r
        c = r.random()
        if c < 0.45:
            return None, 'none'
        if c < 0.52:
            return '!', 'nonspecific'
        if c < 0.64:
            return '!' + r.choice(['local', 'Foo', 'a-b', 'x.y', 'p/q', 'n1', 'caf' + E9, 'a_b', 'x;y', 'q=1', 'z~', 'a,b' if r.random() < 0.15 else 'ab']), 'local'
        if c < 0.8:
            core = {'s': ['str', 'int', 'float', 'null', 'bool', 'binary', 'timestamp'], 'q': ['seq', 'omap', 'set', 'pairs'], 'm': ['map', 'set', 'omap']}[kind]
            return 'tag:yaml.org,2002:' + r.choice(core), 'core'
        if c < 0.9 and handles:
            h = r.choice(sorted(handles))
            return handles[h] + r.choice(['t1', 'x/y', 'T', 'caf' + E9, 'a%b', 'q!r']), 'handle'
        if r.random() < 0.35:
            # a tag under a prefix that some documents of the stream abbreviate with a handle and others do not
            return r.choice(['tag:example.com,2000:', 'tag:' + E9 + 'x.org,2000:', '!my-', '!loc/', 'tag:other.org,2002:']) + r.choice(['t1', 'x/y', 'T', 'str']), 'handle_prefix_without_handle'
        return 'tag:example.org,2011:' + r.choice(['a', 'b/c', 'd.e', 'caf' + E9, chr(0x4e2d) + chr(0x1F600), 'x y', 'p%q', 'a#b', '[z]' if r.random() < 0.3 else 'z', '{w}' if r.random() < 0.3 else 'w', 'u!v']), 'uri'

    def anchor(self):
        r = self.r
        if r.random() < 0.15:
            self.na += 1
            a = r.choice(['a', 'anc', 'x-1', 'A_b', 'id00']) + str(self.na)
            self.anchors.append(a)
            self.classes.add('anchor')
            return a
        return None

    def scalar(self, handles, key=False):
        r = self.r
        if key and r.random() < 0.6:
            v = S.key_string(r)
            cls = 'key'
        else:
            v, cls = S.gen(r)
        self.classes.add('str:' + cls)
        tag, tcls = self.tag('s', handles)
        self.classes.add('tag:' + tcls)
        if tag is None:
            imp = [True, True]
        else:
            imp = r.choice([[False, False], [False, False], [True, False], [False, True], [True, True]])
        style = r.choice([None, None, '', '"', "'", '|', '>'])
        return ['SC', self.anchor(), tag, imp, v, style]

    def node(self, out, depth, handles, key=False):
        r = self.r
        if self.anchors and r.random() < 0.08:
            out.append(['AL', r.choice(self.anchors)])
            self.classes.add('alias')
            return
        c = r.random()
        if depth >= 4 or c < 0.5:
            out.append(self.scalar(handles, key))
            return
        flow = r.choice([None, True, False])
        if c < 0.75:
            tag, tcls = self.tag('q', handles)
            out.append(['QS', self.anchor(), tag, True if tag is None else r.random() < 0.4, flow])
            for _ in range(r.choice([0, 1, 2, 3])):
                self.node(out, depth + 1, handles)
            out.append(['QE'])
            self.classes.add('seq' + ('_key' if key else ''))
        else:
            tag, tcls = self.tag('m', handles)
            out.append(['MS', self.anchor(), tag, True if tag is None else r.random() < 0.4, flow])
            for _ in range(r.choice([0, 1, 2, 3])):
                self.node(out, depth + 1, handles, key=True)
                self.node(out, depth + 1, handles)
            out.append(['ME'])
            self.classes.add('map' + ('_key' if key else ''))

    def stream(self):
        r = self.r
        out = [['SS']]
        n = r.choice([0, 1, 1, 1, 2, 3])
        for i in range(n):
            self.anchors = []
            self.na = 0
            tags = r.choice(TAG_PREFIXES)
            version = r.choice([None, None, None, [1, 1], [1, 2]])
            if tags:
                self.classes.add('%TAG')
            if version:
                self.classes.add('%YAML')
            out.append(['DS', r.random() < 0.4, version, tags])
            self.node(out, 0, tags or {})
            out.append(['DE', r.random() < 0.3])
        out.append(['SE'])
        if n > 1:
            self.classes.add('multidoc')
        return out


EMIT_AXES = {
    'canonical': [None, None, None, True, False],
    'indent': [None, 1, 2, 3, 4, 7, 9, 10, 0, -1, 100],
    'width': [None, 1, 5, 10, 20, 40, 80, 200, 0, -5],
    'allow_unicode': [None, True, False],
    'line_break': [None, '\n', '\r', '\r\n', chr(0x85), 'x', ''],
}


def gen_opts(r):
    o = {}
    for k, vals in EMIT_AXES.items():
        if r.random() < 0.4:
            continue
        o[k] = r.choice(vals)
    return o
