"""Documents that put a (hostile) tag on a node of a chosen kind in a chosen context (C01, C04)."""
P = 'tag:yaml.org,2002:'
PY_PLAIN = ['none', 'bool', 'str', 'unicode', 'bytes', 'int', 'long', 'float', 'complex', 'list', 'tuple', 'dict']
PY_NAMED = ['name', 'module', 'object', 'object/new', 'object/apply']
NAMES = ['os.system', 'subprocess.Popen', 'builtins.eval', 'eval', 'exec', 'print', 'open', 'yaml.load', 'os.path.join', 'os', 'sys.modules',
         'vf_canary.Canary', 'vf_canary.canary_fn', 'vf_canary.instance', 'vf_canary.VALUE', 'vf_canary.Plain', 'vf_canary', 'vf_unimported.f', 'vf_unimported.K',
         'vf_unimported', 'vf_canary.ITER', 'vf_canary.STEPPER', 'vf_canary.PROBE', 'vf_canary.UNHASHABLE', 'vf_canary.Canary.computed', 'vf_canarypkg.VALUE', 'vf_canarypkg.unimp', 'vf_canarypkg.unimp.f',
         'vf_unimppkg.sub.f', 'vf_unimppkg.sub', 'vf_unimppkg', '', 'a.b.c.garbage', 'nosuchmodule.x', 'os.', '.system', 'os.nosuchattr', 'yaml.constructor.Constructor', 'builtins.object', 'collections.OrderedDict']
OTHER_TAGS = ['!foo', '!f', '!int', '!str', '!seq', '!map', '!null', '!python/name:os.system', '!python/object/apply:os.system', 'tag:example.org,2011:x', P + 'x', P + 'Str', P + 'python/none:', P + 'int2', P + 'python', P + 'python/', P + 'python/object', P + 'python/name',
              P + 'python/object/apply', P + 'PYTHON/name:os.system', P + 'python/object/newer:os.system', P + 'python/namespace:os.system', 'tag:yaml.org,2002python/name:os.system',
              'tag:python.yaml.org,2002:object/apply:os.system', P + 'ruby/object:Foo', P + 'java/object:java.lang.Runtime']
KINDS = ['scalar_empty', 'scalar_arg', 'seq', 'map', 'map_full']
CONTEXTS = ['root', 'seq_item', 'map_value', 'map_key', 'anchored_aliased', 'merge_value', 'merge_alias', 'merge_list', 'in_set', 'set_value', 'in_omap', 'omap_key', 'in_pairs',
            'second_doc', 'depth3', 'alias_key', 'inside_merge_source', 'value_key_value', 'value_key_sibling', 'value_key_alias',
            'merge_overridden', 'merge_overridden_list', 'merge_overridden_deep', 'dup_key_shadowed', 'dup_key_shadowing', 'merge_twice', 'after_handle_doc', 'after_handle_doc_secondary',
            'omap_key_among', 'omap_same_key_twice', 'set_same_member_twice', 'map_key_among', 'pairs_same_key_twice',
            'value_key_bool', 'value_key_float', 'value_key_timestamp', 'value_key_binary', 'value_key_null', 'value_key_int']
TYPED_VALUE_KEY = {'value_key_bool': '!!bool', 'value_key_float': '!!float', 'value_key_timestamp': '!!timestamp', 'value_key_binary': '!!binary', 'value_key_null': '!!null',
                   'value_key_int': '!!int', 'value_key_pybytes': '!!python/bytes', 'value_key_pyint': '!!python/int', 'value_key_pycomplex': '!!python/complex', 'value_key_pystr': '!!python/str',
                   'value_key_pyfloat': '!!python/float', 'value_key_pybool': '!!python/bool', 'value_key_pylong': '!!python/long'}
TYPED_SEQ = {'pycomplex_seq': '!!python/complex', 'pyint_seq': '!!python/int', 'pybytes_seq': '!!python/bytes', 'pyfloat_seq': '!!python/float', 'pystr_seq': '!!python/str',
             'pybool_seq': '!!python/bool', 'pynone_seq': '!!python/none'}
FULL_CONTEXTS = CONTEXTS + ['in_pytuple', 'in_pydict', 'in_pylist_key'] + [c for c in TYPED_VALUE_KEY if c not in CONTEXTS] + list(TYPED_SEQ)
SPELLINGS = ['bangbang', 'verbatim', 'handle', 'percent']


def python_tags(names=NAMES):
    out = [P + 'python/' + t for t in PY_PLAIN]
    for t in PY_NAMED:
        for n in names:
            out.append(P + 'python/' + t + ':' + n)
    return out


def content(kind):
    if kind == 'scalar_empty':
        return ''
    if kind == 'scalar_arg':
        return '"echo hi"'
    if kind == 'seq':
        return '[echo, hi]'
    if kind == 'map':
        return '{a: 1}'
    return '{args: [echo], kwds: {shell: true}, state: {a: 1}, listitems: [1, 2], dictitems: {k: v}}'


def spell(tag, spelling):
    """Returns (directive lines, tag text) or None if the spelling does not apply."""
    if tag == '':
        return '', ''
    if tag == '!':
        return ('', '!') if spelling == 'bangbang' else None
    if spelling == 'verbatim':
        return '', '!<' + tag + '>'
    if tag.startswith('!'):
        return ('', tag) if spelling == 'bangbang' else None
    if spelling == 'bangbang':
        if tag.startswith(P):
            return '', '!!' + tag[len(P):]
        return None
    if spelling == 'handle':
        pre = P + 'python/'
        if tag.startswith(pre) and len(tag) > len(pre):
            return '%TAG !p! ' + pre + '\n', '!p!' + tag[len(pre):]
        return None
    if spelling == 'percent':
        if tag.startswith(P) and '/' in tag[len(P):]:
            return '', '!!' + tag[len(P):].replace('/', '%2F').replace('o', '%6F', 1)
        return None
    return None


def render(tag, kind, context, spelling='bangbang'):
    """Returns (text, info) or None.  info: tag_on_merge_source(bool), expect_count (documents)."""
    sp = spell(tag, spelling)
    if sp is None:
        return None
    directives, ttext = sp
    c = content(kind)
    node = (ttext + ' ' + c).strip() if ttext else (c if c else '""')
    if kind == 'scalar_empty' and not ttext:
        node = '""'
    is_map = kind in ('map', 'map_full')
    info = {'merge_source': False}
    if context == 'root':
        body = node + '\n'
    elif context == 'seq_item':
        body = '- a\n- ' + node + '\n- b\n'
    elif context == 'map_value':
        body = 'k: ' + node + '\nz: 1\n'
    elif context == 'map_key':
        body = '? ' + node + '\n: v\n'
    elif context == 'anchored_aliased':
        a = '&a ' + node if ttext or c else '&a ""'
        body = '- ' + a + '\n- *a\n- {k: *a}\n'
    elif context == 'merge_value':
        if not is_map:
            return None
        body = 'x: 1\n<<: ' + node + '\n'
        info['merge_source'] = True
    elif context == 'merge_alias':
        if not is_map:
            return None
        body = '- &m ' + node + '\n- {<<: *m, y: 2}\n'
        # the anchored node is also an ordinary sequence item: its tag IS constructed there
    elif context == 'merge_list':
        if not is_map:
            return None
        body = 'x: 1\n<<: [{q: 1}, ' + node + ']\n'
        info['merge_source'] = True
    elif context == 'inside_merge_source':
        body = 'x: 1\n<<: {inner: ' + node + ' }\n'
    elif context == 'merge_overridden':
        # a merged entry whose key the merging mapping also gives itself: its value is constructed and then overwritten
        body = 'x: {<<: {a: ' + node + ' }, a: 1}\n'
        info['shadowed'] = True         # constructed, then overwritten: not in the result
    elif context == 'merge_overridden_list':
        body = '<<: [{a: ' + node + ' }, {b: 2, a: 3}]\na: 1\n'
        info['shadowed'] = True         # constructed, then overwritten: not in the result
    elif context == 'merge_overridden_deep':
        body = '- &m {a: [{k: ' + node + ' }]}\n- {a: 1, <<: *m}\n- {<<: *m, a: 2}\n'
    elif context == 'dup_key_shadowed':
        body = '{a: ' + node + ' , a: 1}\n'
        info['shadowed'] = True         # constructed, then overwritten: not in the result
    elif context == 'dup_key_shadowing':
        body = 'a: 1\na: ' + node + '\n'
    elif context == 'merge_twice':
        body = '<<: {a: ' + node + ' }\n<<: {a: 2}\n'
        info['shadowed'] = True         # constructed, then overwritten: not in the result
    elif context in TYPED_VALUE_KEY:
        # the value of a '=' key handed to the converter of a scalar type
        body = 'k: ' + TYPED_VALUE_KEY[context] + ' {=: ' + node + ' }\n'
        info['value_key'] = True
    elif context in TYPED_SEQ:
        # a scalar type written on a sequence: not a form the type has (rejected), whatever the items are
        body = '- ' + TYPED_SEQ[context] + ' [ ' + node + ' ]\n- ' + TYPED_SEQ[context] + ' [1, ' + node + ' ]\n'
        info['typed_seq'] = True
    elif context == 'value_key_value':
        # the "=" (value) key of a mapping that carries a scalar core tag: SafeConstructor.construct_scalar() descends into it
        body = '- !!str {=: ' + node + ' }\n- z\n'
        info['value_key'] = True
    elif context == 'value_key_sibling':
        body = 'k: !!int {b: ' + node + ' , =: "3"}\n'
        info['value_key'] = True
    elif context == 'value_key_alias':
        # the anchored node is also an ordinary sequence item: its tag IS constructed there
        body = '- &v ' + (node if (ttext or c) else '""') + '\n- !!str {=: *v}\n'
    elif context == 'in_set':
        body = '!!set\n? a\n? ' + node + '\n'
    elif context == 'set_value':
        body = '!!set {a: ' + node + ' , b: }\n'
    elif context == 'omap_key_among':
        body = '!!omap\n- a: 1\n- ? ' + node + '\n  : 2\n- b: 3\n'
    elif context == 'omap_same_key_twice':
        body = '!!omap\n- ? ' + node + '\n  : 1\n- ? ' + node + '\n  : 2\n'
    elif context == 'pairs_same_key_twice':
        body = '!!pairs\n- ? ' + node + '\n  : 1\n- ? ' + node + '\n  : 2\n'
    elif context == 'set_same_member_twice':
        body = '!!set\n? ' + node + '\n? b\n? ' + node + '\n'
    elif context == 'map_key_among':
        body = 'a: 1\n? ' + node + '\n: 2\nb: 3\n'
    elif context == 'omap_key':
        body = '!!omap\n- ? ' + node + '\n  : 2\n'
    elif context == 'in_omap':
        body = '!!omap\n- a: 1\n- b: ' + node + '\n'
    elif context == 'in_pairs':
        body = '!!pairs\n- a: 1\n- ? ' + node + '\n  : 2\n'
    elif context in ('after_handle_doc', 'after_handle_doc_secondary'):
        # an earlier document maps a handle onto the core (or python/) prefix; handles end with their document, so the
        # same spelling in a later, directive-less document is a local tag (primary handle) / the default prefix (secondary)
        if directives or (ttext and (not ttext.startswith('!') or ttext.startswith('!<'))):
            return None
        if context == 'after_handle_doc':
            if ttext.startswith('!!'):
                return None
            return '%TAG ! ' + (P if 'python' in tag else P) + '\n--- first\n--- ' + node + '\n', info
        if ttext and not ttext.startswith('!!'):
            return None
        return '%TAG !! tag:example.org,2002:x/\n--- first\n--- ' + node + '\n', info
    elif context == 'second_doc':
        return 'first: doc\n...\n' + directives + '---\n- ' + node + '\n', info
    elif context == 'depth3':
        body = 'a:\n  - b:\n      c: ' + node + '\n'
    elif context == 'alias_key':
        body = '- &a ' + (node if (ttext or c) else '""') + '\n- {*a : v}\n'
    elif context == 'in_pytuple':
        body = '!!python/tuple [a, ' + node + ' ]\n'
    elif context == 'in_pydict':
        body = '!!python/dict {k: ' + node + ' }\n'
    elif context == 'in_pylist_key':
        body = '? !!python/tuple [ ' + node + ' ]\n: v\n'
    else:
        return None
    return directives + ('---\n' if directives else '') + body, info
