"""Rebuild the LibYAML glue from /repo/yaml/_yaml.c (Cython is not installed: the .pyx cannot be
regenerated) and lay it over symlinks to /repo/lib/yaml/*.py.

build kinds: 'plain' (-O1), 'asan' (ASan+UBSan, run with LD_PRELOAD of the ASan runtime).
The compiled object is cached under /verif/.cache/cext keyed by the sha256 of the sources + flags.
"""
import hashlib
import os
import shutil
import subprocess
import sysconfig

from . import core

CACHE = os.path.join(core.VERIF, '.cache', 'cext')


def _pyinfo():
    out = subprocess.run([core.PY, '-c', 'import sysconfig;print(sysconfig.get_paths()["include"]);'
                                         'print(sysconfig.get_config_var("EXT_SUFFIX"))'],
                         capture_output=True, text=True, check=True).stdout.split()
    return out[0], out[1]


def sources():
    c = os.path.join(core.REPO, 'yaml', '_yaml.c')
    h = os.path.join(core.REPO, 'yaml', '_yaml.h')
    return c, h


def asan_runtime():
    try:
        p = subprocess.run(['clang-14', '-print-file-name=libclang_rt.asan-x86_64.so'], capture_output=True,
                           text=True).stdout.strip()
        return p if os.path.exists(p) else None
    except OSError:
        return None


def build(kind='plain'):
    """Returns (path_to_so, note).  path None => could not build; note says why."""
    c, h = sources()
    if not os.path.exists(c):
        return None, 'yaml/_yaml.c missing'
    inc, suffix = _pyinfo()
    if kind == 'asan':
        cc = ['clang-14', '-O1', '-g', '-fno-omit-frame-pointer', '-fsanitize=address,undefined',
              '-fno-sanitize-recover=undefined']
    else:
        cc = ['gcc', '-O1', '-g0']
    flags = cc + ['-shared', '-fPIC', '-w', '-I' + inc, '-I' + os.path.dirname(c)]
    m = hashlib.sha256()
    for p in (c, h):
        if os.path.exists(p):
            m.update(open(p, 'rb').read())
    m.update(' '.join(cc).encode())          # compiler + options only: the include path of a scratch worktree must not change the key
    key = m.hexdigest()[:24]
    os.makedirs(CACHE, exist_ok=True)
    so = os.path.join(CACHE, '%s-%s%s' % (kind, key, suffix))
    if not os.path.exists(so):
        tmp = so + '.tmp%d' % os.getpid()
        r = subprocess.run(flags + [c, '-o', tmp, '-lyaml'], capture_output=True, text=True)
        if r.returncode != 0:
            try:
                os.unlink(tmp)
            except OSError:
                pass
            return None, 'compile failed: ' + r.stderr[-800:]
        os.replace(tmp, so)
        # keep the cache small: only the six newest builds of a kind stay (a concurrent run on a scratch worktree may be using another one)
        mine = sorted((f for f in os.listdir(CACHE) if f.startswith(kind + '-') and '.tmp' not in f),
                      key=lambda f: os.path.getmtime(os.path.join(CACHE, f)), reverse=True)
        for f in mine[6:]:
            if f != os.path.basename(so):
                try:
                    os.unlink(os.path.join(CACHE, f))
                except OSError:
                    pass
    note = 'glue rebuilt from yaml/_yaml.c (%s)' % kind
    pyx = os.path.join(core.REPO, 'yaml', '_yaml.pyx')
    if os.path.exists(pyx) and os.path.getmtime(pyx) > os.path.getmtime(c) + 1:
        note += '; _yaml.pyx is newer than _yaml.c (no Cython here: glue built from stale generated C)'
    return so, note


def overlay(tmp, kind='plain'):
    """Create <tmp>/ovl_<kind>/yaml with symlinks to the repo's .py files + the rebuilt extension.
    Returns (pythonpath_entry, env_extra, note).  Falls back to the stock extension."""
    so, note = build(kind)
    suffix = _pyinfo()[1]
    lib = os.path.join(core.REPO, 'lib', 'yaml')
    if so is None:
        if kind == 'asan':
            return None, {}, note
        stock = os.path.join(lib, '_yaml' + suffix)
        if not os.path.exists(stock):
            return None, {}, note + '; no stock extension either'
        so = stock
        note += '; using stock lib/yaml/_yaml*.so'
    root = os.path.join(tmp, 'ovl_' + kind)
    pkg = os.path.join(root, 'yaml')
    os.makedirs(pkg, exist_ok=True)
    for f in os.listdir(lib):
        if f.endswith('.py'):
            dst = os.path.join(pkg, f)
            if not os.path.lexists(dst):
                os.symlink(os.path.join(lib, f), dst)
    dst = os.path.join(pkg, '_yaml' + suffix)
    if not os.path.lexists(dst):
        os.symlink(so, dst)
    env = {}
    if kind == 'asan':
        rt = asan_runtime()
        if not rt:
            return None, {}, 'ASan runtime not found'
        env['LD_PRELOAD'] = rt
        env['ASAN_OPTIONS'] = 'detect_leaks=0:halt_on_error=1:abort_on_error=1:allocator_may_return_null=1'
        env['UBSAN_OPTIONS'] = 'halt_on_error=1:print_stacktrace=1'
        env['PYTHONMALLOC'] = 'malloc'
    return root, env, note


if __name__ == '__main__':
    for k in ('plain', 'asan'):
        print(k, build(k))
