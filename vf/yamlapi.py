"""Name -> class tables for the loaders/dumpers of the yaml package under test (resolved at call
time from the imported package, so an overlay build is used when it is first on sys.path)."""
import yaml

HAVE_C = bool(getattr(yaml, '__with_libyaml__', False))


def L(name):
    return getattr(yaml, name)


def D(name):
    return getattr(yaml, name)

PY_LOADERS = ['BaseLoader', 'SafeLoader', 'FullLoader', 'UnsafeLoader']
C_LOADERS = ['CBaseLoader', 'CSafeLoader', 'CFullLoader', 'CUnsafeLoader']
PY_DUMPERS = ['BaseDumper', 'SafeDumper', 'Dumper']
C_DUMPERS = ['CBaseDumper', 'CSafeDumper', 'CDumper']


def loaders(names):
    return [n for n in names if not n.startswith('C') or HAVE_C]

def exc_sig(e):
    """Class name + the fields that identify a YAML error (for comparisons and reports)."""
    d = {'cls': type(e).__name__}
    for a in ('context', 'problem', 'note'):
        if hasattr(e, a):
            d[a] = getattr(e, a)
    for a in ('context_mark', 'problem_mark'):
        m = getattr(e, a, None)
        if m is not None:
            d[a] = [m.index, m.line, m.column]
    if isinstance(e, yaml.reader.ReaderError):
        d.update({'character': e.character if isinstance(e.character, int) else repr(e.character), 'position': e.position, 'reason': e.reason, 'encoding': e.encoding})
    if 'problem' not in d:
        d['msg'] = str(e)[:200]
    return d
