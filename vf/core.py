"""Framework core: shard pool, worker context, evidence, known findings, replay files.

Everything a check needs that is not specific to a property lives here.  Pure stdlib.
"""
import hashlib
import json
import os
import shutil
import subprocess
import sys
import tempfile
import time

VERIF = os.path.dirname(os.path.dirname(os.path.abspath(__file__)))
REPO = os.environ.get('VERIF_REPO', '/repo')
PY = os.environ.get('VERIF_PY', '/venv/bin/python')
NCPU = int(os.environ.get('VERIF_JOBS', '14'))
FINDINGS_FILE = os.path.join(VERIF, 'known_findings.json')
HASH_CAP = 150000          # per shard: hashes shipped to the parent for the distinct count


def h64(*parts):
    m = hashlib.blake2b(digest_size=8)
    for p in parts:
        if isinstance(p, str):
            p = p.encode('utf-8', 'surrogatepass')
        elif not isinstance(p, (bytes, bytearray)):
            p = repr(p).encode('utf-8', 'surrogatepass')
        m.update(p)
        m.update(b'\x00')
    return m.hexdigest()


def jsonable(x, depth=0):
    """Lossy but readable conversion of a case to something json.dump accepts."""
    if depth > 12:
        return '<deep>'
    if isinstance(x, (type(None), bool, int)):
        return x
    if isinstance(x, float):
        return x if x == x and x not in (float('inf'), float('-inf')) else repr(x)
    if isinstance(x, str):
        try:
            x.encode('utf-8')
            return x
        except UnicodeEncodeError:
            return {'__surrogate_str__': x.encode('utf-8', 'surrogatepass').hex()}
    if isinstance(x, (bytes, bytearray)):
        return {'__bytes__': bytes(x).hex()}
    if isinstance(x, dict):
        return {str(k): jsonable(v, depth + 1) for k, v in x.items()}
    if isinstance(x, (list, tuple, set, frozenset)):
        return [jsonable(v, depth + 1) for v in x]
    return repr(x)


def unjson(x):
    if isinstance(x, dict):
        if set(x) == {'__bytes__'}:
            return bytes.fromhex(x['__bytes__'])
        if set(x) == {'__surrogate_str__'}:
            return bytes.fromhex(x['__surrogate_str__']).decode('utf-8', 'surrogatepass')
        return {k: unjson(v) for k, v in x.items()}
    if isinstance(x, list):
        return [unjson(v) for v in x]
    return x


# ---------------------------------------------------------------------------------------------
# worker side

class StopShard(BaseException):
    pass


class CaseTimeout(BaseException):
    """Raised inside a worker by the per-case watchdog (SIGALRM)."""


class watchdog:
    """with core.watchdog(seconds): ...   raises CaseTimeout in the main thread of the worker when the block runs
    longer.  The limit is a generous multiple (>= 1000x) of what a case takes; a firing is reported by the check as a
    suspected hang only after the same case timed out again on a retry."""

    def __init__(self, seconds):
        self.seconds = seconds

    def _fire(self, signum, frame):
        raise CaseTimeout()

    def __enter__(self):
        import signal
        self.old = signal.signal(signal.SIGALRM, self._fire)
        signal.setitimer(signal.ITIMER_REAL, self.seconds)
        return self

    def __exit__(self, *exc):
        import signal
        signal.setitimer(signal.ITIMER_REAL, 0)
        signal.signal(signal.SIGALRM, self.old)
        return False


def guarded(fn, seconds=20, retries=1):
    """Run fn() under the watchdog.  Returns ('ok', result) or ('hang', None) when it timed out retries+1 times."""
    for attempt in range(retries + 1):
        try:
            with watchdog(seconds):
                return 'ok', fn()
        except CaseTimeout:
            continue
    return 'hang', None


class Ctx:
    """Handed to check.run(spec, ctx) inside a worker process."""

    def __init__(self, spec, outpath, crumbpath):
        self.spec = spec
        self.out = open(outpath, 'w')
        self.crumbf = open(crumbpath, 'w') if crumbpath else None
        self.stats = {}
        self.hashes = set()
        self.overflow_distinct = 0
        self.evaluations = 0
        self.samples = []
        self.nviol = 0
        self.max_viol = spec.get('max_viol', 40)
        self.t0 = time.time()
        self.deadline = self.t0 + spec['budget_s'] if spec.get('budget_s') else None

    # -- bookkeeping ---------------------------------------------------------------------
    def time_left(self):
        return True if self.deadline is None else time.time() < self.deadline

    def stat(self, name, inc=1):
        self.stats[name] = self.stats.get(name, 0) + inc

    def statmax(self, name, value):
        if value > self.stats.get(name, 0):
            self.stats[name] = value

    def start_heartbeat(self, limit_s):
        """A case that blocks inside one C call (a regular expression that backtracks for ever, a libyaml loop) cannot be
        interrupted by SIGALRM.  A daemon thread ends the worker (exit status 98) when no bread crumb was written for
        limit_s seconds; the parent then re-runs the bread-crumbed case alone to confirm."""
        import threading
        self.last_crumb = time.time()

        def watch():
            while True:
                time.sleep(2)
                if time.time() - self.last_crumb > limit_s:
                    try:
                        self.out.flush()
                        os.write(2, b'worker: no progress for %d s on the bread-crumbed case, giving up\n' % limit_s)
                    finally:
                        os._exit(98)
        threading.Thread(target=watch, daemon=True).start()

    def crumb(self, case):
        self.last_crumb = time.time()
        if self.crumbf:
            f = self.crumbf
            f.seek(0)
            f.write(json.dumps(jsonable(case)))
            f.truncate()
            f.flush()

    def case(self, key, nontrivial=True, classes=()):
        """Count one evaluated case.  key identifies it (hashed); nontrivial per the check's rule."""
        self.evaluations += 1
        if nontrivial:
            hh = key if (isinstance(key, str) and len(key) == 16) else h64(key)
            if len(self.hashes) < HASH_CAP:
                self.hashes.add(hh)
            else:
                self.overflow_distinct += 1
        for c in classes:
            self.stats['class:' + c] = self.stats.get('class:' + c, 0) + 1

    def sample(self, case, limit=3):
        if len(self.samples) < limit:
            self.samples.append(jsonable(case))

    def violation(self, case, detail, mech=None):
        """Record a violation.  mech: the known-finding mechanism the check's classifier proposes
        (None = unclassified, always a VIOLATION)."""
        self.nviol += 1
        self.stat('violations_raw')
        if mech:
            self.stat('mech:' + mech)
        if self.nviol <= self.max_viol or not mech:
            rec = {'t': 'viol', 'case': jsonable(case), 'detail': jsonable(detail), 'mech': mech}
            self.out.write(json.dumps(rec) + '\n')
            self.out.flush()

    def hang(self, case, detail, limit=3):
        """A suspected hang (watchdog fired twice on one case): a violation; after `limit` of them the shard stops
        (every further hanging case would cost two watchdog periods)."""
        self.violation(case, detail, None)
        self.stat('hangs_suspected')
        if self.stats['hangs_suspected'] >= limit:
            self.stat('shard_stopped_after_hangs')
            raise StopShard()

    def note(self, kind, payload):
        self.out.write(json.dumps({'t': 'note', 'kind': kind, 'payload': jsonable(payload)}) + '\n')

    def finish(self):
        try:
            import yaml
            self.stats['worker_have_c'] = int(bool(getattr(yaml, '__with_libyaml__', False)))
            self.stats['worker_count'] = 1
        except Exception:
            pass
        self.out.write(json.dumps({'t': 'done', 'stats': self.stats, 'evaluations': self.evaluations,
                                   'hashes': sorted(self.hashes), 'overflow': self.overflow_distinct,
                                   'samples': self.samples, 'wall': time.time() - self.t0}) + '\n')
        self.out.close()


# ---------------------------------------------------------------------------------------------
# parent side

def base_env(tmp, hashseed='0', pythonpath=None, extra=None):
    env = dict(os.environ)
    for k in ('PYTHONSTARTUP', 'PYTHONINSPECT'):
        env.pop(k, None)
    pp = [VERIF] + (pythonpath or [os.path.join(REPO, 'lib')])
    deps = os.path.join(VERIF, '.deps')
    if os.path.isdir(deps):
        pp.append(deps)
    env['PYTHONPATH'] = os.pathsep.join(pp)
    env['PYTHONPYCACHEPREFIX'] = os.path.join(tmp, 'pyc')
    env['PYTHONDONTWRITEBYTECODE'] = '1'
    env['PYTHONHASHSEED'] = str(hashseed)
    env['PYTHONIOENCODING'] = 'utf-8:surrogatepass'
    env['VERIF_REPO'] = REPO
    if extra:
        env.update(extra)
    return env


class ShardResult:
    def __init__(self, spec):
        self.spec = spec
        self.status = None      # 'ok' | 'crash' | 'timeout' | 'error'
        self.rc = None
        self.viols = []
        self.notes = []
        self.done = None
        self.crumb = None
        self.stderr = ''


def _cap_memory():
    # a runaway case (unbounded construction) must not take the machine down: 6 GB of address space per worker
    import resource
    lim = int(os.environ.get('VERIF_WORKER_AS_GB', '6')) << 30
    resource.setrlimit(resource.RLIMIT_AS, (lim, lim))


def run_shards(check_id, specs, tmp, timeout_s, jobs=None):
    """Run every spec in its own worker subprocess (at most `jobs` at a time)."""
    jobs = jobs or NCPU
    pending = list(enumerate(specs))
    running = []
    results = [None] * len(specs)
    while pending or running:
        while pending and len(running) < jobs:
            i, spec = pending.pop(0)
            outp = os.path.join(tmp, 'shard%d.jsonl' % i)
            crumbp = os.path.join(tmp, 'shard%d.crumb' % i)
            errp = os.path.join(tmp, 'shard%d.err' % i)
            env = base_env(tmp, hashseed=spec.get('hashseed', '0'), pythonpath=spec.get('pythonpath'),
                           extra=spec.get('env'))
            cmd = [PY, '-X', 'faulthandler'] + spec.get('pyflags', []) + ['-m', 'vf.worker', check_id, outp, crumbp]
            if spec.get('wrap'):
                cmd = spec['wrap'] + cmd
            capped = spec.get('cext') != 'asan' and not spec.get('wrap')
            p = subprocess.Popen(cmd, stdin=subprocess.PIPE, stdout=subprocess.DEVNULL,
                                 stderr=open(errp, 'w'), env=env, cwd=VERIF, preexec_fn=_cap_memory if capped else None)
            p.stdin.write(json.dumps(spec).encode())
            p.stdin.close()
            running.append((i, spec, p, time.time(), outp, crumbp, errp))
        time.sleep(0.05)
        still = []
        for item in running:
            i, spec, p, t0, outp, crumbp, errp = item
            rc = p.poll()
            lim = spec.get('timeout_s', timeout_s)
            if rc is None and time.time() - t0 > lim:
                p.kill()
                p.wait()
                rc = 'timeout'
            if rc is None:
                still.append(item)
                continue
            r = ShardResult(spec)
            r.rc = rc
            try:
                with open(outp) as f:
                    for line in f:
                        try:
                            rec = json.loads(line)
                        except ValueError:
                            continue
                        if rec['t'] == 'viol':
                            r.viols.append(rec)
                        elif rec['t'] == 'note':
                            r.notes.append(rec)
                        elif rec['t'] == 'done':
                            r.done = rec
            except OSError:
                pass
            try:
                r.stderr = open(errp, errors='replace').read()[-6000:]
            except OSError:
                pass
            try:
                c = open(crumbp).read()
                r.crumb = json.loads(c) if c else None
            except (OSError, ValueError):
                r.crumb = None
            if rc == 'timeout' or rc == 98:
                r.status = 'timeout'
            elif rc == 0 and r.done:
                r.status = 'ok'
            elif isinstance(rc, int) and rc < 0 or (isinstance(rc, int) and rc != 0 and
                                                    ('Sanitizer' in r.stderr or 'Fatal Python error' in r.stderr)):
                r.status = 'crash'
            else:
                r.status = 'error'
            results[i] = r
        running = still
    return results


def load_findings():
    try:
        with open(FINDINGS_FILE) as f:
            return json.load(f)
    except (OSError, ValueError):
        return {'findings': []}


def open_findings(prop):
    return [f for f in load_findings().get('findings', []) if f.get('status') == 'open' and prop in f.get('properties', [])]


def write_replay(prop, idx, payload):
    d = os.path.join(VERIF, 'replays', prop)
    os.makedirs(d, exist_ok=True)
    path = os.path.join(d, 'viol_%03d.json' % idx)
    with open(path, 'w') as f:
        json.dump(payload, f, indent=1)
    return path


def write_evidence(prop, tier, seed, level, coverage, assumptions, wall, violations):
    d = os.path.join(VERIF, 'evidence')
    os.makedirs(d, exist_ok=True)
    ev = {'property_id': prop, 'tier': tier, 'seed': seed, 'level': level, 'coverage': coverage,
          'assumptions': assumptions, 'wall_s': round(wall, 2), 'violations': violations}
    tmp = os.path.join(d, prop + '.json.tmp')
    with open(tmp, 'w') as f:
        json.dump(ev, f, indent=1, sort_keys=True)
    os.replace(tmp, os.path.join(d, prop + '.json'))


def mktmp(prefix):
    base = os.environ.get('VERIF_TMP') or tempfile.gettempdir()
    return tempfile.mkdtemp(prefix=prefix, dir=base)


def rmtree(p):
    shutil.rmtree(p, ignore_errors=True)
