"""./check <ID> [--tier quick|thorough] [--seed N] [--replay path] [--jobs N]"""
import argparse
import importlib
import json
import os
import sys
import time

from . import core, cext


def aggregate(results):
    agg = {'stats': {}, 'hashes': set(), 'overflow': 0, 'evaluations': 0, 'samples': [], 'viols': [],
           'notes': [], 'shards': len(results), 'shard_status': {}}
    for r in results:
        agg['shard_status'][r.status] = agg['shard_status'].get(r.status, 0) + 1
        agg['viols'].extend(r.viols)
        agg['notes'].extend(r.notes)
        if r.done:
            d = r.done
            for k, v in d['stats'].items():
                if k.startswith('max:'):
                    agg['stats'][k] = max(agg['stats'].get(k, 0), v)
                else:
                    agg['stats'][k] = agg['stats'].get(k, 0) + v
            agg['hashes'].update(d['hashes'])
            agg['overflow'] += d['overflow']
            agg['evaluations'] += d['evaluations']
            for s in d['samples']:
                if len(agg['samples']) < 8:
                    agg['samples'].append(s)
    return agg


def prepare_specs(specs, tmp, notes):
    """Resolve 'cext' requests into pythonpath/env; drop specs whose build is impossible."""
    out = []
    cache = {}
    for s in specs:
        kind = s.get('cext')
        if kind:
            if kind not in cache:
                cache[kind] = cext.overlay(tmp, kind)
                notes.append('cext[%s]: %s' % (kind, cache[kind][2]))
            root, env, note = cache[kind]
            if root is None:
                notes.append('shard dropped (no %s build): %s' % (kind, s.get('kind')))
                continue
            s = dict(s)
            s['pythonpath'] = [root]
            e = dict(s.get('env') or {})
            e.update(env)
            s['env'] = e
        out.append(s)
    return out


def main(argv=None):
    ap = argparse.ArgumentParser()
    ap.add_argument('prop')
    ap.add_argument('--tier', default=os.environ.get('VERIF_TIER', 'quick'))
    ap.add_argument('--seed', type=int, default=int(os.environ.get('VERIF_SEED', '1')))
    ap.add_argument('--replay')
    ap.add_argument('--jobs', type=int, default=core.NCPU)
    a = ap.parse_args(argv)
    prop = a.prop.upper()
    tier = a.tier if a.tier in ('quick', 'thorough') else 'quick'
    mod = importlib.import_module('vf.checks.' + prop.lower())
    t0 = time.time()
    tmp = core.mktmp('vf_%s_' % prop)
    try:
        return _run(mod, prop, tier, a.seed, a.replay, a.jobs, tmp, t0)
    finally:
        core.rmtree(tmp)


def _run(mod, prop, tier, seed, replay, jobs, tmp, t0):
    notes = []
    known = {f['id']: f for f in core.open_findings(prop)}
    if replay:
        payload = json.load(open(replay))
        base = dict(payload.get('spec') or {})
        base.update({'kind': 'replay', 'cases': [payload['case']], 'seed': payload.get('seed', seed), 'tier': tier})
        specs = [base]
    else:
        specs = list(mod.plan(tier, seed))
        wit = [f for f in known.values() if f.get('witness') is not None]
        # pinned witnesses of open findings, replayed under the same monitors
        for f in wit:
            s = dict(f.get('spec') or {})
            w = (f.get('witness_by_property') or {}).get(prop, f['witness'] if f['properties'][0] == prop else None)
            if w is None:
                continue
            s.update({'kind': 'replay', 'cases': [w], 'seed': seed, 'tier': tier, 'witness_of': f['id']})
            specs.insert(0, s)
    for s in specs:
        s.setdefault('tier', tier)
        s.setdefault('seed', seed)
    specs = prepare_specs(specs, tmp, notes)
    timeout = getattr(mod, 'SHARD_TIMEOUT', {'quick': 600, 'thorough': 7200})[tier]
    results = core.run_shards(prop, specs, tmp, timeout, jobs)
    # crashes: re-run the bread-crumbed case alone to attribute and confirm
    extra = []
    for r in results:
        if r.status == 'crash' and r.crumb is not None and r.spec.get('kind') != 'replay':
            s = dict(r.spec)
            s.update({'kind': 'replay', 'cases': [r.crumb], 'confirm_crash': True})
            rr = core.run_shards(prop, [s], tmp, 300, 1)[0]
            if rr.status == 'crash':
                rr.viols.append({'t': 'viol', 'case': r.crumb, 'mech': None,
                                 'detail': {'what': 'worker process died (signal/sanitizer)', 'rc': rr.rc,
                                            'stderr': rr.stderr[-3000:]}})
            else:
                notes.append('crash of shard not reproduced on its last case: rc=%r' % (r.rc,))
            extra.append(rr)
    # shards that stopped making progress: re-run the bread-crumbed case alone, twice; if it does not finish either time it is a hang
    confirmed_hang = set()
    for idx, r in enumerate(results):
        if r.status == 'timeout' and r.crumb is not None and r.spec.get('kind') != 'replay' and hasattr(mod, 'replay'):
            if len(confirmed_hang) >= 2:
                confirmed_hang.add(idx)          # two stalls were already confirmed on their own cases: further stalled shards are not re-run
                notes.append('a further stalled shard was not re-run (two hangs already confirmed); its last case: %s' % json.dumps(r.crumb)[:200])
                continue
            s = dict(r.spec)
            s.update({'kind': 'replay', 'cases': [r.crumb], 'case_limit_s': 60, 'confirm_hang': True})
            again = [core.run_shards(prop, [dict(s)], tmp, 150, 1)[0] for _ in range(2)]
            if all(a.status == 'timeout' for a in again):
                confirmed_hang.add(idx)
                again[0].viols.append({'t': 'viol', 'case': r.crumb, 'mech': None,
                                       'detail': {'what': 'the case does not terminate: no progress for 60 s when run alone, twice (cases take milliseconds)', 'hang': True}})
            else:
                notes.append('a stalled shard was not reproduced on its last case alone')
            extra.append(again[0])
    agg = aggregate(results + extra)
    inconclusive = []
    for idx, r in enumerate(results):
        if r.status == 'timeout' and idx in confirmed_hang:
            continue
        if r.status == 'timeout':
            inconclusive.append('shard %s timed out (watchdog); last case: %s' % (r.spec.get('kind'), json.dumps(r.crumb)[:300]))
        elif r.status == 'error':
            inconclusive.append('shard %s failed in the harness: %s' % (r.spec.get('kind'), r.stderr[-1500:]))
        elif r.status == 'crash' and r.crumb is None:
            inconclusive.append('shard %s crashed without a bread crumb: rc=%r %s' % (r.spec.get('kind'), r.rc, r.stderr[-1500:]))
    extra_cov = mod.summarize(agg, tier) or {}
    if replay:
        extra_cov.pop('_inconclusive', None)       # a replay runs one case: the liveness rules of a whole run do not apply
    if extra_cov.get('_inconclusive'):
        inconclusive.append(extra_cov.pop('_inconclusive'))
    if agg['evaluations'] == 0:
        inconclusive.append('no case was evaluated')
    # the LibYAML glue was built for this run: every worker that asked for it must have been able to import it
    if any('glue rebuilt' in n or 'stock lib/yaml' in n for n in notes):
        nw = sum(1 for r in results if r.done and r.spec.get('cext'))
        nc = sum((r.done['stats'].get('worker_have_c', 0)) for r in results if r.done and r.spec.get('cext'))
        if nw and nc < nw:
            inconclusive.append('%d of %d workers could not import the LibYAML extension although it was built: the C side was not exercised' % (nw - nc, nw))
    # classification against the known-findings file (open entries only)
    unknown, known_hits = [], {}
    for v in agg['viols']:
        m = v.get('mech')
        if m and all(x in known for x in m.split('+')):
            for x in m.split('+'):
                known_hits.setdefault(x, []).append(v)
        else:
            unknown.append(v)
    for fid, vs in sorted(known_hits.items()):
        f = known[fid]
        print('KNOWN-FINDING: property=%s %s: %s (%d occurrences this run)' % (prop, fid, f['what'], agg['stats'].get('mech:' + fid, len(vs))))
    rc = 0
    if unknown:
        rc = 1
        hist = {}
        for v in unknown:
            d = v.get('detail') or {}
            k = (v.get('mech'), d.get('stage') if isinstance(d, dict) else None,
                 (d.get('exc') or {}).get('cls') if isinstance(d, dict) and isinstance(d.get('exc'), dict) else None)
            hist[k] = hist.get(k, 0) + 1
        print('unclassified violations by (mech, stage, exception): ' + ', '.join('%s=%d' % (k, n) for k, n in sorted(hist.items(), key=str)))
        seen = set()
        n = 0
        core.rmtree(os.path.join(core.VERIF, 'replays', prop))
        unknown.sort(key=lambda v: (v.get('mech') is not None, len(json.dumps(v['case']))))
        for v in unknown:
            key = core.h64(json.dumps(v['case'], sort_keys=True))
            if key in seen:
                continue
            seen.add(key)
            if n >= 25:
                break
            spec = {k: v2 for k, v2 in (results[0].spec if results else {}).items() if k in ('cext', 'hashseed')}
            path = core.write_replay(prop, n, {'property': prop, 'tier': tier, 'seed': seed, 'case': v['case'],
                                               'detail': v['detail'], 'mech': v.get('mech'),
                                               'spec': v.get('spec') or spec})
            print('VIOLATION property=%s replay=%s' % (prop, path))
            print('  detail: ' + json.dumps(v['detail'])[:700])
            n += 1
    elif inconclusive:
        rc = 2
    for msg in inconclusive:
        print('INCONCLUSIVE property=%s %s' % (prop, msg))
    stats = agg['stats']
    coverage = {
        'evaluations': agg['evaluations'],
        'distinct_nontrivial': len(agg['hashes']),
        'rule': mod.RULE + (' (distinct count is a lower bound: %d further non-trivial cases were not hashed)' % agg['overflow'] if agg['overflow'] else ''),
        'samples': agg['samples'] or ['<none>'],
        'counters': {k: v for k, v in sorted(stats.items())},
        'shards': agg['shard_status'],
        'known_findings_hit': {k: stats.get('mech:' + k, len(v)) for k, v in known_hits.items()},
        'inconclusive': inconclusive,
        'verdict': {0: 'held on everything explored', 1: 'violated', 2: 'inconclusive'}[rc],
        'notes': notes,
    }
    coverage.update(extra_cov)
    wall = time.time() - t0
    if not replay and not os.environ.get('VERIF_NO_EVIDENCE'):      # (set when a check is run against a seeded mutant)
        core.write_evidence(prop, tier, seed, mod.LEVEL, coverage, list(mod.ASSUMPTIONS) + notes, wall, len(unknown))
    print('%s tier=%s seed=%d evaluations=%d distinct=%d violations=%d known=%d wall=%.1fs -> %s' % (
        prop, tier, seed, agg['evaluations'], len(agg['hashes']), len(unknown), sum(len(v) for v in known_hits.values()),
        wall, coverage['verdict']))
    return rc


if __name__ == '__main__':
    sys.exit(main())
