"""Worker entry: python -m vf.worker <check id> <out.jsonl> <crumb>; spec as JSON on stdin."""
import importlib
import json
import sys
import traceback

from . import core


def main():
    check_id, outp, crumbp = sys.argv[1:4]
    spec = json.loads(sys.stdin.read())
    sys.setrecursionlimit(spec.get('recursionlimit', 1000))
    mod = importlib.import_module('vf.checks.' + check_id.lower())
    ctx = core.Ctx(spec, outp, crumbp)
    if spec.get('case_limit_s') != 0 and not spec.get('wrap'):
        ctx.start_heartbeat(spec.get('case_limit_s', 240))
    try:
        if spec.get('kind') == 'replay':
            for case in spec['cases']:
                mod.replay(core.unjson(case), ctx)
        else:
            mod.run(spec, ctx)
    except core.StopShard:
        pass
    except BaseException:
        traceback.print_exc()
        ctx.out.flush()
        sys.exit(3)
    ctx.finish()


if __name__ == '__main__':
    main()
