"""Stand-alone parser of the canonical YAML form that the dumpers write with canonical=True:

    stream   ::= ( directive* '---' node ( '...' )? )*
    node     ::= '*' name | props? ( dq-scalar | '[' (node (',' node)* ','?)? ']' | '{' ('?' node ':' node (',' ...)* ','?)? '}' )
    props    ::= anchor tag? | tag anchor?          anchor ::= '&' name
    tag      ::= '!<' uri '>' | '!' | '!' chars | '!!' chars | '!' word '!' chars

Written from scratch (not tests/legacy_tests/canonical.py).  Produces event tuples:
  ('DocStart', version, tags) ('DocEnd',) ('Scalar', anchor, tag, value) ('SeqStart', anchor, tag) ('SeqEnd',)
  ('MapStart', anchor, tag) ('MapEnd',) ('Alias', name)
"""


class CanonicalError(Exception):
    pass


BREAKS = '\r\n' + chr(0x85) + chr(0x2028) + chr(0x2029)
ESC = {'0': '\0', 'a': '\x07', 'b': '\x08', 't': '\t', '\t': '\t', 'n': '\n', 'v': '\x0b', 'f': '\x0c', 'r': '\r', 'e': '\x1b', ' ': ' ', '"': '"', '/': '/',
       '\\': '\\', 'N': chr(0x85), '_': chr(0xa0), 'L': chr(0x2028), 'P': chr(0x2029)}
NAMECH = set('abcdefghijklmnopqrstuvwxyzABCDEFGHIJKLMNOPQRSTUVWXYZ0123456789-_')


class Parser:
    def __init__(self, text):
        if text[:1] == chr(0xFEFF):
            text = text[1:]
        self.t = text
        self.i = 0
        self.n = len(text)
        self.events = []
        self.handles = {}

    def err(self, msg):
        raise CanonicalError('%s at offset %d: %r' % (msg, self.i, self.t[self.i:self.i + 30]))

    def ws(self):
        t, n = self.t, self.n
        while self.i < n:
            c = t[self.i]
            if c in ' \t' or c in BREAKS:
                self.i += 1
            elif c == '#':
                while self.i < n and t[self.i] not in BREAKS:
                    self.i += 1
            else:
                break

    def at_line_start(self):
        return self.i == 0 or self.t[self.i - 1] in BREAKS

    def parse(self):
        self.ws()
        while self.i < self.n:
            version, tags = None, {}
            while self.t.startswith('%', self.i):
                if not self.at_line_start():
                    self.err('directive not at the start of a line')
                j = self.i
                while j < self.n and self.t[j] not in BREAKS:
                    j += 1
                parts = self.t[self.i:j].split()
                if parts[0] == '%YAML' and len(parts) == 2:
                    a, b = parts[1].split('.')
                    version = (int(a), int(b))
                elif parts[0] == '%TAG' and len(parts) == 3:
                    tags[parts[1]] = unescape_uri(parts[2])
                else:
                    self.err('unknown directive')
                self.i = j
                self.ws()
            if not self.t.startswith('---', self.i):
                self.err("'---' expected")
            self.i += 3
            self.handles = {'!': '!', '!!': 'tag:yaml.org,2002:'}
            self.handles.update(tags)
            self.events.append(('DocStart', version, tags or None))
            self.ws()
            self.node()
            self.ws()
            if self.t.startswith('...', self.i) and self.at_line_start():
                self.i += 3
                self.ws()
            self.events.append(('DocEnd',))
        return self.events

    def name(self):
        j = self.i
        while j < self.n and self.t[j] in NAMECH:
            j += 1
        if j == self.i:
            self.err('anchor name expected')
        s = self.t[self.i:j]
        self.i = j
        return s

    def tag(self):
        t = self.t
        if t.startswith('!<', self.i):
            j = t.find('>', self.i)
            if j < 0:
                self.err("'>' expected")
            s = unescape_uri(t[self.i + 2:j])
            self.i = j + 1
            return s
        j = self.i + 1
        while j < self.n and t[j] not in ' \t' and t[j] not in BREAKS:
            j += 1
        tok = t[self.i:j]
        self.i = j
        if tok == '!':
            return '!'
        k = tok.find('!', 1)
        if k > 0:
            handle, suffix = tok[:k + 1], tok[k + 1:]
        else:
            handle, suffix = '!', tok[1:]
        if handle not in self.handles:
            self.err('undefined tag handle %r' % handle)
        return self.handles[handle] + unescape_uri(suffix)

    def node(self):
        t = self.t
        if t.startswith('*', self.i):
            self.i += 1
            self.events.append(('Alias', self.name()))
            return
        anchor = tag = None
        for _ in range(2):
            if t.startswith('&', self.i) and anchor is None:
                self.i += 1
                anchor = self.name()
                self.ws()
            elif t.startswith('!', self.i) and tag is None:
                tag = self.tag()
                self.ws()
        if self.i >= self.n:
            self.err('node content expected')
        c = t[self.i]
        if c == '"':
            self.events.append(('Scalar', anchor, tag, self.dq()))
        elif c == '[':
            self.i += 1
            self.events.append(('SeqStart', anchor, tag))
            self.ws()
            while not t.startswith(']', self.i):
                self.node()
                self.ws()
                if t.startswith(',', self.i):
                    self.i += 1
                    self.ws()
                elif not t.startswith(']', self.i):
                    self.err("',' or ']' expected")
            self.i += 1
            self.events.append(('SeqEnd',))
        elif c == '{':
            self.i += 1
            self.events.append(('MapStart', anchor, tag))
            self.ws()
            while not t.startswith('}', self.i):
                if not t.startswith('?', self.i):
                    self.err("'?' expected")
                self.i += 1
                self.ws()
                self.node()
                self.ws()
                if not t.startswith(':', self.i):
                    self.err("':' expected")
                self.i += 1
                self.ws()
                self.node()
                self.ws()
                if t.startswith(',', self.i):
                    self.i += 1
                    self.ws()
                elif not t.startswith('}', self.i):
                    self.err("',' or '}' expected")
            self.i += 1
            self.events.append(('MapEnd',))
        else:
            self.err('canonical node content expected (double-quoted scalar, [ or {)')

    def dq(self):
        """Double-quoted scalar with escapes and line folding."""
        t = self.t
        self.i += 1
        out = []
        while True:
            if self.i >= self.n:
                self.err('unterminated double-quoted scalar')
            c = t[self.i]
            if c == '"':
                self.i += 1
                return ''.join(out)
            if c == '\\':
                self.i += 1
                e = t[self.i:self.i + 1]
                if e in ('x', 'u', 'U'):
                    w = {'x': 2, 'u': 4, 'U': 8}[e]
                    h = t[self.i + 1:self.i + 1 + w]
                    if len(h) != w:
                        self.err('short escape')
                    out.append(chr(int(h, 16)))
                    self.i += 1 + w
                elif e and e in BREAKS:
                    # escaped line break: the break and the indentation of the next line vanish
                    self.skip_break()
                    while self.i < self.n and t[self.i] in ' \t':
                        self.i += 1
                elif e in ESC:
                    out.append(ESC[e])
                    self.i += 1
                else:
                    self.err('unknown escape')
            elif c in ' \t' or c in BREAKS:
                # white space run: if it contains breaks it folds
                j = self.i
                while j < self.n and t[j] in ' \t':
                    j += 1
                if j < self.n and t[j] in BREAKS:
                    self.i = j
                    nbreaks = 0
                    first = None
                    while self.i < self.n and (t[self.i] in ' \t' or t[self.i] in BREAKS):
                        if t[self.i] in BREAKS:
                            b = self.skip_break()
                            if first is None:
                                first = b
                            nbreaks += 1
                        else:
                            self.i += 1
                    if nbreaks == 1:
                        out.append(' ' if first == '\n' else first)
                    else:
                        if first != '\n':
                            out.append(first)
                        out.append('\n' * (nbreaks - 1))
                else:
                    out.append(t[self.i:j])
                    self.i = j
            else:
                out.append(c)
                self.i += 1

    def skip_break(self):
        """Consume one line break; returns its normalised form ('\\n' for CR, LF, CRLF, NEL; LS/PS as themselves)."""
        t = self.t
        c = t[self.i]
        if c == '\r' and t[self.i + 1:self.i + 2] == '\n':
            self.i += 2
            return '\n'
        self.i += 1
        return c if c in (chr(0x2028), chr(0x2029)) else '\n'


def unescape_uri(s):
    if '%' not in s:
        return s
    out = bytearray()
    i = 0
    b = s.encode('utf-8')
    while i < len(b):
        if b[i] == 0x25 and i + 2 < len(b) + 0 and len(b) >= i + 3:
            out.append(int(b[i + 1:i + 3].decode('ascii'), 16))
            i += 3
        else:
            out.append(b[i])
            i += 1
    return out.decode('utf-8')


def parse(text):
    return Parser(text).parse()


def events_of_yaml(events):
    """yaml events -> the tuple form above (tags as the parser reports them)."""
    out = []
    for e in events:
        n = type(e).__name__[:-5]
        if n == 'DocumentStart':
            out.append(('DocStart', tuple(e.version) if e.version else None, dict(e.tags) if e.tags else None))
        elif n == 'DocumentEnd':
            out.append(('DocEnd',))
        elif n == 'Alias':
            out.append(('Alias', e.anchor))
        elif n == 'Scalar':
            out.append(('Scalar', e.anchor, e.tag, e.value))
        elif n == 'SequenceStart':
            out.append(('SeqStart', e.anchor, e.tag))
        elif n == 'SequenceEnd':
            out.append(('SeqEnd',))
        elif n == 'MappingStart':
            out.append(('MapStart', e.anchor, e.tag))
        elif n == 'MappingEnd':
            out.append(('MapEnd',))
    return out
