"""Recogniser of the token grammar documented at the top of yaml/parser.py, written as a generic memoising
CFG recogniser over token-kind names (no code shared with the parser).  One tightening, named by the
property itself: in a block mapping a VALUE needs a preceding KEY."""

KINDS = ['DIR', 'DS', 'DE', 'BSS', 'BMS', 'BE', 'FSS', 'FMS', 'FSE', 'FME', 'KEY', 'VALUE', 'ENTRY', 'FENTRY', 'ALIAS', 'ANCHOR', 'TAG', 'SCALAR']
NAME_OF = {'StreamStart': 'SS', 'StreamEnd': 'SE', 'Directive': 'DIR', 'DocumentStart': 'DS', 'DocumentEnd': 'DE',
           'BlockSequenceStart': 'BSS', 'BlockMappingStart': 'BMS', 'BlockEnd': 'BE', 'FlowSequenceStart': 'FSS',
           'FlowMappingStart': 'FMS', 'FlowSequenceEnd': 'FSE', 'FlowMappingEnd': 'FME', 'Key': 'KEY', 'Value': 'VALUE',
           'BlockEntry': 'ENTRY', 'FlowEntry': 'FENTRY', 'Alias': 'ALIAS', 'Anchor': 'ANCHOR', 'Tag': 'TAG', 'Scalar': 'SCALAR'}


def kind_of(token):
    return NAME_OF[type(token).__name__[:-5]]


def accepts(seq, key_required=True):
    """seq: sequence of kind names including the leading 'SS' and the trailing 'SE'."""
    seq = tuple(seq)
    n = len(seq)
    memo = {}

    def tok(name):
        def f(i):
            return {i + 1} if i < n and seq[i] == name else set()
        return f

    def seqp(*ps):
        def f(i):
            cur = {i}
            for p in ps:
                nxt = set()
                for j in cur:
                    nxt |= p(j)
                cur = nxt
                if not cur:
                    break
            return cur
        return f

    def alt(*ps):
        def f(i):
            out = set()
            for p in ps:
                out |= p(i)
            return out
        return f

    def opt(p):
        return lambda i: {i} | p(i)

    def star(p):
        def f(i):
            out = {i}
            frontier = {i}
            while frontier:
                nxt = set()
                for j in frontier:
                    nxt |= p(j)
                nxt -= out
                out |= nxt
                frontier = nxt
            return out
        return f

    def plus(p):
        return seqp(p, star(p))

    def ref(name):
        def f(i):
            k = (name, i)
            if k in memo:
                return memo[k]
            memo[k] = set()
            memo[k] = G[name](i)
            return memo[k]
        return f

    G = {}
    properties = alt(seqp(tok('TAG'), opt(tok('ANCHOR'))), seqp(tok('ANCHOR'), opt(tok('TAG'))))
    G['flow_collection'] = alt(ref('flow_sequence'), ref('flow_mapping'))
    G['block_collection'] = alt(ref('block_sequence'), ref('block_mapping'))
    G['block_content'] = alt(ref('block_collection'), ref('flow_collection'), tok('SCALAR'))
    G['flow_content'] = alt(ref('flow_collection'), tok('SCALAR'))
    G['block_node'] = alt(tok('ALIAS'), seqp(properties, opt(ref('block_content'))), ref('block_content'))
    G['flow_node'] = alt(tok('ALIAS'), seqp(properties, opt(ref('flow_content'))), ref('flow_content'))
    G['indentless'] = plus(seqp(tok('ENTRY'), opt(ref('block_node'))))
    G['bnois'] = alt(tok('ALIAS'), seqp(properties, opt(alt(ref('block_content'), ref('indentless')))), ref('block_content'),
                     ref('indentless'))
    G['block_sequence'] = seqp(tok('BSS'), star(seqp(tok('ENTRY'), opt(ref('block_node')))), tok('BE'))
    if key_required:
        entry = seqp(tok('KEY'), opt(ref('bnois')), opt(seqp(tok('VALUE'), opt(ref('bnois')))))
    else:
        entry = alt(seqp(tok('KEY'), opt(ref('bnois')), opt(seqp(tok('VALUE'), opt(ref('bnois'))))),
                    seqp(tok('VALUE'), opt(ref('bnois'))))
    G['block_mapping'] = seqp(tok('BMS'), star(entry), tok('BE'))
    fentry = alt(ref('flow_node'), seqp(tok('KEY'), opt(ref('flow_node')), opt(seqp(tok('VALUE'), opt(ref('flow_node'))))))
    G['flow_sequence'] = seqp(tok('FSS'), star(seqp(fentry, tok('FENTRY'))), opt(fentry), tok('FSE'))
    G['flow_mapping'] = seqp(tok('FMS'), star(seqp(fentry, tok('FENTRY'))), opt(fentry), tok('FME'))
    implicit_document = seqp(ref('block_node'), star(tok('DE')))
    explicit_document = seqp(star(tok('DIR')), tok('DS'), opt(ref('block_node')), star(tok('DE')))
    stream = seqp(tok('SS'), opt(implicit_document), star(explicit_document), tok('SE'))
    return n in stream(0)
