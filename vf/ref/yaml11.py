"""Independent evaluator of the YAML 1.1 type repository as PyYAML documents its dialect (bool without y/n; float needs a "."; base-60; "_" separators; timestamp forms). Character-level recognisers and own converters; no regex, nothing copied from resolver.py."""
import datetime
DIG = '0123456789'
def _run(s, i, alphabet):
    j = i
    while j < len(s) and s[j] in alphabet: j += 1
    return j
BOOL = {'yes': True, 'Yes': True, 'YES': True, 'no': False, 'No': False, 'NO': False, 'true': True, 'True': True, 'TRUE': True,
        'false': False, 'False': False, 'FALSE': False, 'on': True, 'On': True, 'ON': True, 'off': False, 'Off': False, 'OFF': False}
def is_int(s):
    i = 1 if s[:1] in ('-', '+') else 0
    b = s[i:]
    if not b: return False
    if b.startswith('0b') and len(b) > 2 and _run(b, 2, '01_') == len(b): return True
    if b.startswith('0x') and len(b) > 2 and _run(b, 2, '0123456789abcdefABCDEF_') == len(b): return True
    if b == '0': return True
    if b[0] == '0': return len(b) > 1 and _run(b, 1, '01234567_') == len(b)
    if b[0] in '123456789':
        j = _run(b, 1, DIG + '_')
        if j == len(b): return True
        return _sexa_tail(b, j) == len(b)
    return False
def _sexa_tail(b, j):
    # one or more  ':' [0-5]?[0-9] ; returns index after, or -1
    n = 0
    while j < len(b) and b[j] == ':':
        k = j + 1
        if k < len(b) and b[k] in '012345' and k + 1 < len(b) and b[k + 1] in DIG: k += 2
        elif k < len(b) and b[k] in DIG: k += 1
        else: break
        j = k; n += 1
    return j if n else -1
def is_float(s):
    if s in ('.nan', '.NaN', '.NAN'): return True
    i = 1 if s[:1] in ('-', '+') else 0
    b = s[i:]
    if b in ('.inf', '.Inf', '.INF'): return True
    def exp_ok(t):
        if t == '': return True
        return len(t) >= 3 and t[0] in 'eE' and t[1] in '+-' and _run(t, 2, DIG) == len(t)
    if b[:1] in DIG:
        j = _run(b, 1, DIG + '_')
        if j < len(b) and b[j] == '.':
            k = _run(b, j + 1, DIG + '_')
            if exp_ok(b[k:]): return True
        # sexagesimal float: must start with digit (incl 0), then (:dd)+ '.' [0-9_]*
        t = _sexa_tail(b, j)
        if t != -1 and t < len(b) and b[t] == '.' and _run(b, t + 1, DIG + '_') == len(b): return True
        return False
    if i == 0 and s[:1] == '.' and len(s) > 1 and s[1] in DIG:
        k = _run(s, 2, DIG + '_')
        return exp_ok(s[k:])
    return False
def parse_ts(s):
    # returns dict of fields or None
    def digs(i, lo, hi):
        j = i
        while j < len(s) and s[j] in DIG and j - i < hi: j += 1
        return j if j - i >= lo else -1
    j = digs(0, 4, 4)
    if j == -1 or j >= len(s) or s[j] != '-': return None
    y = s[:4]
    k = digs(j + 1, 1, 2)
    if k == -1 or k >= len(s) or s[k] != '-': return None
    mo = s[j + 1:k]
    l = digs(k + 1, 1, 2)
    if l == -1: return None
    d = s[k + 1:l]
    if l == len(s):
        return dict(y=y, mo=mo, d=d) if (len(mo) == 2 and len(d) == 2) else None
    # separator
    i = l
    if s[i] in 'Tt': i += 1
    elif s[i] in ' \t':
        while i < len(s) and s[i] in ' \t': i += 1
    else: return None
    a = digs(i, 1, 2)
    if a == -1 or a >= len(s) or s[a] != ':': return None
    h = s[i:a]
    b = digs(a + 1, 2, 2)
    if b == -1 or b >= len(s) or s[b] != ':': return None
    mi = s[a + 1:b]
    c = digs(b + 1, 2, 2)
    if c == -1: return None
    sec = s[b + 1:c]
    i = c; frac = None
    if i < len(s) and s[i] == '.':
        e = i + 1
        while e < len(s) and s[e] in DIG: e += 1
        frac = s[i + 1:e]; i = e
    tz = None
    if i < len(s):
        e = i
        while e < len(s) and s[e] in ' \t': e += 1
        if e >= len(s): return None
        if s[e] == 'Z':
            if e + 1 != len(s): return None
            tz = ('Z',)
        elif s[e] in '+-':
            f = digs(e + 1, 1, 2)
            if f == -1: return None
            th = s[e + 1:f]; tm = None
            if f < len(s):
                if s[f] != ':': return None
                g = digs(f + 1, 2, 2)
                if g != len(s): return None
                tm = s[f + 1:g]
            tz = (s[e], th, tm)
        else: return None
    return dict(y=y, mo=mo, d=d, h=h, mi=mi, s=sec, frac=frac, tz=tz)
def classify(s):
    if s == '' or s in ('~', 'null', 'Null', 'NULL'): return 'null'
    if s in BOOL: return 'bool'
    if s == '<<': return 'merge'
    if s == '=': return 'value'
    if is_float(s): return 'float'
    if is_int(s): return 'int'
    if parse_ts(s): return 'timestamp'
    return 'str'
class Invalid(Exception): pass
def value(s):
    c = classify(s)
    if c == 'null': return None
    if c == 'bool': return BOOL[s]
    if c == 'str': return s
    if c == 'int':
        t = s.replace('_', ''); sign = -1 if t[0] == '-' else 1
        if t[0] in '+-': t = t[1:]
        if t == '0': return 0
        if t.startswith('0b'): base, body = 2, t[2:]
        elif t.startswith('0x'): base, body = 16, t[2:]
        elif t[0] == '0': base, body = 8, t[1:] or '0'
        elif ':' in t:
            v = 0
            for part in t.split(':'): v = v * 60 + int(part)
            return sign * v
        else: base, body = 10, t
        if body == '': raise Invalid(s)
        v = 0
        for ch in body: v = v * base + '0123456789abcdef'.index(ch.lower())
        return sign * v
    if c == 'float':
        t = s.replace('_', '').lower(); sign = -1.0 if t[0] == '-' else 1.0
        if t[0] in '+-': t = t[1:]
        if t == '.inf': return sign * float('inf')
        if t == '.nan': return float('nan')
        if ':' in t:
            v = 0.0
            parts = t.split(':')
            # PyYAML sums digit*base with base ascending from the right
            base = 1; tot = 0.0
            for p in reversed(parts): tot += float(p) * base; base *= 60
            return sign * tot
        return sign * float(t)
    if c == 'timestamp':
        f = parse_ts(s)
        try:
            if 'h' not in f: return datetime.date(int(f['y']), int(f['mo']), int(f['d']))
            us = int((f['frac'] or '')[:6].ljust(6, '0')) if f['frac'] else 0
            tz = None
            if f['tz']:
                if f['tz'][0] == 'Z': tz = datetime.timezone.utc
                else:
                    delta = datetime.timedelta(hours=int(f['tz'][1]), minutes=int(f['tz'][2] or 0))
                    tz = datetime.timezone(-delta if f['tz'][0] == '-' else delta)
            return datetime.datetime(int(f['y']), int(f['mo']), int(f['d']), int(f['h']), int(f['mi']), int(f['s']), us, tzinfo=tz)
        except ValueError: raise Invalid(s)
