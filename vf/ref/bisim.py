"""Type-strict, identity-aware comparison of object graphs (never uses == on containers).

diff(a, b) -> None if bisimilar, else a string naming the first difference found.
sig(a)     -> canonical, process-independent signature string (first-visit numbering).
"""
import datetime
import enum
import math
import struct
import types

ATOMS = (type(None), bool, int, float, complex, str, bytes, datetime.date, datetime.datetime,
         datetime.timedelta, range)
BY_IDENTITY = (type, types.FunctionType, types.BuiltinFunctionType, types.ModuleType, types.MethodType,
               types.MethodDescriptorType, types.WrapperDescriptorType)


def fbits(x):
    if x != x:
        return 'nan'
    return struct.pack('>d', x).hex()


def atom_eq(a, b):
    if type(a) is not type(b):
        return False
    if isinstance(a, float):
        return fbits(a) == fbits(b)
    if isinstance(a, complex):
        return fbits(a.real) == fbits(b.real) and fbits(a.imag) == fbits(b.imag)
    if isinstance(a, datetime.datetime):
        if (a.tzinfo is None) != (b.tzinfo is None):
            return False
        if a.tzinfo is not None and a.utcoffset() != b.utcoffset():
            return False
        return a == b and a.replace(tzinfo=None) == b.replace(tzinfo=None)
    return a == b


def atom_key(a):
    """Total-order key usable to align dict keys / set members across two graphs."""
    if isinstance(a, float):
        return (type(a).__name__, fbits(a))
    if isinstance(a, datetime.datetime):
        return (type(a).__name__, a.isoformat())
    if isinstance(a, tuple):
        return ('tuple',) + tuple(atom_key(x) for x in a)
    if isinstance(a, frozenset):
        return ('frozenset',) + tuple(sorted(atom_key(x) for x in a))
    if isinstance(a, enum.Enum):
        return ('enum', type(a).__name__, a.name)
    if isinstance(a, ATOMS):
        return (type(a).__name__, repr(a))
    return ('obj', type(a).__name__, id(a))


def _slots(o):
    names = []
    for c in type(o).__mro__:
        s = c.__dict__.get('__slots__', ())
        if isinstance(s, str):
            s = (s,)
        for n in s:
            if n not in ('__dict__', '__weakref__'):
                names.append(n)
    return names


class _D:
    def __init__(self, ordered, track_tuples):
        self.ab = {}
        self.ba = {}
        self.ordered = ordered
        self.track_tuples = track_tuples
        self.keep = []
        self.leaf = (None, None)

    def go(self, a, b, path):
        stack = [(a, b, path)]
        while stack:
            a, b, path = stack.pop()
            if type(a) is not type(b):
                return '%s: type %s vs %s' % (path, type(a).__name__, type(b).__name__)
            if isinstance(a, enum.Enum):
                if a is not b:
                    return '%s: enum member %r vs %r' % (path, a, b)
                continue
            if isinstance(a, BY_IDENTITY):
                if a is not b:
                    return '%s: %r is not %r' % (path, a, b)
                continue
            if type(a) in ATOMS:
                if not atom_eq(a, b):
                    self.leaf = (a, b)
                    return '%s: %r vs %r' % (path, a, b)
                continue
            tracked = not isinstance(a, tuple) or self.track_tuples
            if isinstance(a, ATOMS) and not hasattr(a, '__dict__'):
                # subclass of an atom without state
                if not atom_eq(a, b):
                    return '%s: %r vs %r' % (path, a, b)
                continue
            if tracked:
                ia, ib = id(a), id(b)
                if ia in self.ab or ib in self.ba:
                    if self.ab.get(ia) != ib or self.ba.get(ib) != ia:
                        return '%s: sharing differs (identity structure)' % path
                    continue
                self.ab[ia] = ib
                self.ba[ib] = ia
                self.keep.append((a, b))
            # container part
            if isinstance(a, (list, tuple)) or type(a).__name__ == 'deque':
                la, lb = list(a), list(b)
                if len(la) != len(lb):
                    return '%s: length %d vs %d' % (path, len(la), len(lb))
                for i in range(len(la) - 1, -1, -1):
                    stack.append((la[i], lb[i], '%s[%d]' % (path, i)))
            elif isinstance(a, dict):
                if len(a) != len(b):
                    return '%s: dict size %d vs %d' % (path, len(a), len(b))
                ka, kb = list(a.keys()), list(b.keys())
                if not self.ordered:
                    try:
                        ka.sort(key=atom_key)
                        kb.sort(key=atom_key)
                    except TypeError:
                        pass
                for x, y in zip(reversed(ka), reversed(kb)):
                    stack.append((a[x], b[y], '%s[%r]' % (path, x)))
                    stack.append((x, y, '%s.key(%r)' % (path, x)))
            elif isinstance(a, (set, frozenset)):
                if len(a) != len(b):
                    return '%s: set size %d vs %d' % (path, len(a), len(b))
                sa = sorted(a, key=atom_key)
                sb = sorted(b, key=atom_key)
                for x, y in zip(sa, sb):
                    stack.append((x, y, '%s{%r}' % (path, x)))
            elif isinstance(a, bytearray):
                if bytes(a) != bytes(b):
                    return '%s: bytearray differs' % path
            elif isinstance(a, ATOMS):
                base = [c for c in type(a).__mro__ if c in ATOMS][0]
                if not atom_eq(base(a), base(b)):
                    return '%s: %r vs %r' % (path, a, b)
            # state part
            if not isinstance(a, (list, tuple, dict, set, frozenset)) or type(a) not in (list, tuple, dict, set, frozenset):
                da, db = getattr(a, '__dict__', None), getattr(b, '__dict__', None)
                if (da is None) != (db is None):
                    return '%s: __dict__ presence differs' % path
                if da is not None and type(a) not in (list, tuple, dict, set, frozenset):
                    if sorted(da) != sorted(db):
                        return '%s: attributes %s vs %s' % (path, sorted(da), sorted(db))
                    for k in sorted(da, reverse=True):
                        stack.append((da[k], db[k], '%s.%s' % (path, k)))
                for n in _slots(a):
                    ha, hb = hasattr(a, n), hasattr(b, n)
                    if ha != hb:
                        return '%s: slot %s presence differs' % (path, n)
                    if ha:
                        stack.append((getattr(a, n), getattr(b, n), '%s.%s' % (path, n)))
                if da is None and not _slots(a) and not isinstance(a, (list, tuple, dict, set, frozenset, bytearray) + ATOMS) \
                        and type(a).__name__ != 'deque':
                    # opaque object (Decimal, Fraction, ...): fall back to == and repr
                    try:
                        if not (a == b and repr(a) == repr(b)):
                            return '%s: %r vs %r' % (path, a, b)
                    except Exception as e:      # pragma: no cover
                        return '%s: comparison raised %r' % (path, e)
        return None


def diff(a, b, ordered=False, track_tuples=False):
    return _D(ordered, track_tuples).go(a, b, '$')


def diff_ex(a, b, ordered=False, track_tuples=False):
    """(message, leaf_a, leaf_b) - the leaves are the two atoms that differ, when the difference is one."""
    d = _D(ordered, track_tuples)
    msg = d.go(a, b, '$')
    return msg, d.leaf[0], d.leaf[1]


def sig(a, ordered=False, limit=200000):
    """Canonical signature; containers numbered in first-visit order so that sharing and cycles show."""
    seen = {}
    out = []
    n = [0]

    def rec(x, depth):
        if n[0] > limit or depth > 400:
            out.append('<cut>')
            return
        n[0] += 1
        if isinstance(x, enum.Enum):
            out.append('E:%s.%s' % (type(x).__name__, x.name))
            return
        if isinstance(x, BY_IDENTITY):
            out.append('I:%s.%s' % (getattr(x, '__module__', ''), getattr(x, '__qualname__', getattr(x, '__name__', '?'))))
            return
        if type(x) in ATOMS:
            out.append('%s:%s' % atom_key(x)[:2] if not isinstance(x, (tuple,)) else repr(atom_key(x)))
            return
        if id(x) in seen:
            out.append('@%d' % seen[id(x)])
            return
        seen[id(x)] = len(seen)
        out.append('#%d<%s>' % (seen[id(x)], type(x).__name__))
        if isinstance(x, (list, tuple)):
            out.append('[')
            for y in x:
                rec(y, depth + 1)
                out.append(',')
            out.append(']')
        elif isinstance(x, dict):
            out.append('{')
            ks = list(x.keys())
            if not ordered:
                try:
                    ks.sort(key=atom_key)
                except TypeError:
                    pass
            for k in ks:
                rec(k, depth + 1)
                out.append('=>')
                rec(x[k], depth + 1)
                out.append(',')
            out.append('}')
        elif isinstance(x, (set, frozenset)):
            out.append('set(')
            for y in sorted(x, key=atom_key):
                rec(y, depth + 1)
                out.append(',')
            out.append(')')
        elif isinstance(x, ATOMS):
            out.append(repr(x))
        d = getattr(x, '__dict__', None)
        if d is not None and type(x) not in (list, tuple, dict, set, frozenset):
            out.append('.dict{')
            for k in sorted(d):
                out.append(k + '=')
                rec(d[k], depth + 1)
                out.append(',')
            out.append('}')
        if type(x) not in (list, tuple, dict, set, frozenset):
            for s in _slots(x):
                if hasattr(x, s):
                    out.append('.%s=' % s)
                    rec(getattr(x, s), depth + 1)
            if d is None and not _slots(x) and not isinstance(x, (list, tuple, dict, set, frozenset) + ATOMS):
                out.append('R:' + repr(x))

    import sys
    old = sys.getrecursionlimit()
    sys.setrecursionlimit(max(old, 3000))
    try:
        rec(a, 0)
    finally:
        sys.setrecursionlimit(old)
    return ''.join(out)
