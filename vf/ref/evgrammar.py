"""Recogniser of the event grammar documented at the top of yaml/emitter.py:
stream ::= STREAM-START document* STREAM-END;  document ::= DOCUMENT-START node DOCUMENT-END;
node ::= SCALAR | ALIAS | SEQUENCE-START node* SEQUENCE-END | MAPPING-START (node node)* MAPPING-END"""


def kind_of(event):
    return type(event).__name__[:-5]


def check(kinds):
    """kinds: list of event class names without the 'Event' suffix.  Returns None if grammatical, else a message."""
    n = len(kinds)
    pos = 0

    def node(i, depth):
        if i >= n:
            return -1, 'node expected at end of stream'
        k = kinds[i]
        if k in ('Scalar', 'Alias'):
            return i + 1, None
        if k == 'SequenceStart':
            i += 1
            while i < n and kinds[i] != 'SequenceEnd':
                i, err = node(i, depth + 1)
                if err:
                    return -1, err
            if i >= n:
                return -1, 'SequenceEnd missing'
            return i + 1, None
        if k == 'MappingStart':
            i += 1
            while i < n and kinds[i] != 'MappingEnd':
                i, err = node(i, depth + 1)
                if err:
                    return -1, err
                if i < n and kinds[i] == 'MappingEnd':
                    return -1, 'mapping key without a value at event %d' % i
                i, err = node(i, depth + 1)
                if err:
                    return -1, err
            if i >= n:
                return -1, 'MappingEnd missing'
            return i + 1, None
        return -1, 'node expected, found %s at event %d' % (k, i)

    if n == 0 or kinds[0] != 'StreamStart':
        return 'StreamStart expected first'
    i = 1
    while i < n and kinds[i] == 'DocumentStart':
        i, err = node(i + 1, 0)
        if err:
            return err
        if i >= n or kinds[i] != 'DocumentEnd':
            return 'DocumentEnd expected at event %d' % i
        i += 1
    if i != n - 1 or kinds[i] != 'StreamEnd':
        return 'StreamEnd expected as the last event (at %d of %d: %s)' % (i, n, kinds[i] if i < n else 'end')
    return None
