"""C16 - dumping is deterministic and stable: independent of insertion order, hash seed and process with
sort_keys; insertion order without; a fixed point under re-dump; anchor names a function of the document."""
import json
import os
import random
import subprocess
import sys

import yaml

from .. import core, yamlapi, sigs
from ..gen import values as V, options as O, strings as S, shapes as SH
from ..ref import bisim

ID = 'C16'
LEVEL = 'exploration'
LEVEL_TEXT = ('Exploration: values with mutually comparable keys (G-val graphs incl. sets of strings, nested dicts, shared and recursive '
              'containers) are rebuilt with a different insertion order in worker processes running under different PYTHONHASHSEED '
              'values; a relational monitor in the parent compares the bytes every worker dumped (sort_keys=True, both back-ends) '
              'for the same value and options - this also pins the anchor names to the document. Inside each worker: a second build '
              'of the graph at other addresses must dump identically; with sort_keys=False the loaded key order must be the '
              'insertion order; dump(load(dump(x))) must equal dump(x) under the same options (values include equal but distinct dates). '
              'Two further workers run the address-independence and fixed-point clauses over the object universe of C17 (full dumper, '
              'unsafe loader), starting one step later for classes whose own restore changes them.')
LEVEL_NOTE = ('Held on the values, permutations and hash seeds generated (6 interpreters with distinct seeds incl. a random one).')
TECHNIQUE = 'runtime monitoring: relational monitor over outputs of several interpreters (hash seeds x insertion orders) + in-process fixed-point and order oracles'
DESIGN_REF = 'DESIGN.md section 3, C16'
RULE = ('a case is (value recipe, options); every case is executed by every worker with its own hash seed and insertion order; '
        'non-trivial = the value has a dict or set with at least two entries; distinct by hash of (recipe, options)')
ASSUMPTIONS = ['keys of one mapping/set are mutually comparable (one of: all str, all numbers, all dates, all bytes)', 'NaN is never a key']
HASHSEEDS = ['0', '1', '2', '12345', '4294967295', 'random']
DUMPERS = ['SafeDumper', 'CSafeDumper']


def plan(tier, seed):
    q = tier == 'quick'
    n = 2500 if q else 60000
    return [{'kind': 'objects', 'shard': 100 + k, 'n': 700 if q else 20000, 'cext': 'plain'} for k in range(2 if q else 4)] + [{'kind': 'rel', 'shard': k, 'hashseed': hs, 'n': n, 'cext': 'plain'} for k, hs in enumerate(HASHSEEDS)] + \
           [{'kind': 'rel', 'shard': 6 + k, 'hashseed': str(1000 + k), 'n': n, 'cext': 'plain', 'offset': n * (1 + k)} for k in range(0 if q else 6)]


# ---------------------------------------------------------------------------------------------
def gen_keys(r, cls, n):
    out = []
    seen = set()
    for _ in range(n * 3):
        if len(out) >= n:
            break
        if cls == 'str':
            k = ['s', S.key_string(r) if r.random() < 0.7 else S.gen(r, r.choice(['words', 'lookalike', 'tiny', 'odd']))[0]]
        elif cls == 'int':
            k = ['i', str(r.choice([0, 1, -1, 7, 10, 100, 2 ** 40, r.randint(-1000, 1000)]))]
        elif cls == 'num':
            k = r.choice([['i', str(r.randint(-50, 50))], ['f', float(r.choice([0.5, -1.5, 2.25, 1e10, -3.0, 7.125, r.randint(-50, 50) + 0.5])).hex()]])
        elif cls == 'date':
            k = ['d', [r.choice([1999, 2001, 2024]), r.randint(1, 12), r.randint(1, 28)]]
        else:
            k = ['b', r.randbytes(r.choice([0, 1, 2, 5])).hex()]
        v = V.build({'nodes': [k], 'root': 0})
        if v in seen:
            continue
        seen.add(v)
        out.append(k)
    return out


def gen_spec(r):
    """Graph recipe (same format as gen.values) whose dicts/sets have mutually comparable, pairwise distinct keys."""
    nodes = []
    classes = set()
    ncont = r.choice([1, 1, 2, 3, 4, 6])
    kinds = [r.choice(['dict', 'dict', 'set', 'list']) for _ in range(ncont)]
    for k in kinds:
        nodes.append([k, []])

    def scalar():
        # dates and datetimes are not exempt from anchoring: reusing one object makes '&id001' / '*id001' scalars
        shared = [i for i, n in enumerate(nodes) if n[0] in ('d', 'dt')]
        if shared and r.random() < 0.25:
            classes.add('shared_scalar_object')
            return r.choice(shared)
        if shared and r.random() < 0.2:
            # an equal but distinct twin (two equal dates that are two objects): nothing is shared, so nothing may be anchored -
            # neither in the first dump nor in the dump of what was loaded back
            classes.add('equal_twin_scalar')
            twin = nodes[r.choice(shared)]
            nodes.append([twin[0], list(twin[1])])
            return len(nodes) - 1
        n, c = V._scalar(r)
        nodes.append(n)
        return len(nodes) - 1

    def child(i):
        c = r.random()
        if c < 0.3 and i + 1 < ncont:
            return r.randrange(i + 1, ncont)
        if c < 0.4:
            j = r.randrange(ncont)
            classes.add('shared' if j > i else 'cycle')
            return j
        return scalar()
    big = False
    for i, k in enumerate(kinds):
        n = r.choice([0, 1, 2, 3, 5, 8, 12])
        big = big or (n >= 2 and k != 'list')
        if k == 'list':
            nodes[i][1] = [child(i) for _ in range(n)]
        else:
            cls = r.choice(['str', 'str', 'str', 'int', 'num', 'date', 'bytes'])
            classes.add(k + ':' + cls)
            keys = gen_keys(r, cls, n)
            refs = []
            for kk in keys:
                nodes.append(kk)
                refs.append(len(nodes) - 1)
            if k == 'set':
                nodes[i][1] = refs
            else:
                nodes[i][1] = [[ref, child(i)] for ref in refs]
    # hang unreachable containers into container 0 when possible
    if kinds[0] == 'list':
        nodes[0][1].extend(range(1, ncont))
    elif kinds[0] == 'dict':
        for j in range(1, ncont):
            nodes.append(['s', 'zz-extra-%d' % j])
            if all(nodes[kref][0] == 's' for kref, _ in nodes[0][1]):
                nodes[0][1].append([len(nodes) - 1, j])
    return {'nodes': nodes, 'root': 0}, classes, big


def case_for(seed, i):
    r = random.Random(core.h64('C16case', seed, i))
    spec, classes, big = gen_spec(r)
    opts = O.gen(r, axes=('default_style', 'default_flow_style', 'canonical', 'indent', 'width', 'allow_unicode', 'line_break', 'explicit_start',
                          'explicit_end', 'version', 'tags', 'encoding'))
    return spec, opts, classes, big


def dump(v, dname, opts, sort_keys=True):
    return yaml.dump(v, Dumper=getattr(yaml, dname), sort_keys=sort_keys, **opts)


def digest(x):
    return core.h64(x if isinstance(x, (bytes, str)) else repr(x))


def set_insensitive_equal(t1, t2):
    """F12 classifier: the two texts denote the same node graph when !!set mappings are compared unordered."""
    def canon(node, seen):
        if isinstance(node, yaml.ScalarNode):
            return ('s', node.tag, node.value)          # by value: where an anchored scalar sits inside a permuted set must not matter
        if id(node) in seen:
            return ('@', seen[id(node)])
        seen[id(node)] = len(seen)
        if isinstance(node, yaml.SequenceNode):
            return ('q', node.tag, tuple(canon(c, seen) for c in node.value))
        items = [(canon(k, seen), canon(v, seen)) for k, v in node.value]
        if node.tag == 'tag:yaml.org,2002:set':
            items = sorted(items, key=repr)
        return ('m', node.tag, tuple(items))
    try:
        a = [canon(n, {}) for n in yaml.compose_all(t1, Loader=yaml.SafeLoader)]
        b = [canon(n, {}) for n in yaml.compose_all(t2, Loader=yaml.SafeLoader)]
    except yaml.YAMLError:
        return False
    return a == b


def has_set(spec):
    return any(n[0] == 'set' and len(n[1]) > 1 for n in spec['nodes'])


def inproc_checks(spec, opts, perm, ctx, case):
    for dname in yamlapi.loaders(DUMPERS):
        lname = 'CSafeLoader' if dname.startswith('C') else 'SafeLoader'
        who = dict(case, D=dname)
        try:
            v1 = V.build(spec, perm_seed=perm)
            v2 = V.build(spec, perm_seed=perm)          # same contents, other addresses
            t1 = dump(v1, dname, opts)
            t2 = dump(v2, dname, opts)
        except yaml.YAMLError as e:
            ctx.violation(who, {'what': 'dump rejected plain data', 'exc': yamlapi.exc_sig(e)}, None)
            continue
        ctx.stat('dumps', 2)
        if t1 != t2:
            ctx.violation(who, {'what': 'two dumps of equal graphs built at different addresses differ (same process)', 'a': repr(t1)[:400], 'b': repr(t2)[:400]}, None)
        # (c) fixed point, sort_keys True and False
        for sk in (True, False):
            try:
                ta = dump(v1, dname, opts, sort_keys=sk)
                back = yaml.load(ta, Loader=getattr(yaml, lname))
            except yaml.YAMLError:
                ctx.stat('roundtrip_failed_see_C02')
                continue
            if bisim.diff(v1, back, ordered=False) is not None:
                ctx.stat('roundtrip_differs_see_C02')
                continue
            if not sk and bisim.diff(v1, back, ordered=True) is not None:
                ctx.violation(who, {'what': 'sort_keys=False: loaded key order is not the insertion order', 'diff': bisim.diff(v1, back, ordered=True)[:300], 'text': repr(ta)[:600]}, None)
                continue
            tb = dump(back, dname, opts, sort_keys=sk)
            ctx.stat('fixed_point_checks')
            if ta != tb:
                mech = None
                if not sk and has_set(spec):
                    da, db = ta, tb
                    if isinstance(da, bytes):
                        enc = opts.get('encoding')
                        da, db = da.decode(enc if enc != 'utf-8' else 'utf-8'), db.decode(enc if enc != 'utf-8' else 'utf-8')
                        da, db = da.lstrip(chr(0xFEFF)), db.lstrip(chr(0xFEFF))
                    if set_insensitive_equal(da, db):
                        mech = 'F12'
                ctx.violation(dict(who, sort_keys=sk), {'what': 'dump(load(dump(x))) differs from dump(x)', 'sort_keys': sk, 'first': repr(ta)[:500], 'second': repr(tb)[:500]}, mech)


def doc_events(text):
    """Event signatures per document (without marks)."""
    docs, cur = [], None
    for e in yaml.parse(text, Loader=yaml.SafeLoader):
        if isinstance(e, yaml.DocumentStartEvent):
            cur = []
        elif isinstance(e, yaml.DocumentEndEvent):
            docs.append(cur)
            cur = None
        elif cur is not None:
            cur.append(sigs.ev_sig(e))
    return docs


def stream_position_check(vs_list, opts, perm, ctx, case):
    """Anchor names (and everything else) of a document do not depend on the documents before it in the stream."""
    o = {k: v for k, v in opts.items() if k != 'encoding'}
    for dname in yamlapi.loaders(DUMPERS):
        try:
            whole = doc_events(yaml.dump_all([V.build(s, perm_seed=perm) for s in vs_list], Dumper=getattr(yaml, dname), **o))
            alone = [doc_events(yaml.dump(V.build(s, perm_seed=perm), Dumper=getattr(yaml, dname), **o))[0] for s in vs_list]
        except (yaml.YAMLError, IndexError):
            ctx.stat('stream_position_skipped')
            continue
        ctx.stat('stream_position_checks')
        if len(whole) != len(alone):
            ctx.stat('stream_position_skipped')
            continue
        for k, (a, b) in enumerate(zip(whole, alone)):
            if a != b:
                d = next(((x, y) for x, y in zip(a, b) if x != y), (len(a), len(b)))
                ctx.violation(dict(case, D=dname, stream=True), {'what': 'a document is dumped differently inside a stream than alone (anchor names must be a function of the document)',
                                                                 'document': k, 'in_stream': repr(d[0])[:200], 'alone': repr(d[1])[:200]}, None)
                break


def mixed_keys_case(r, ctx, i):
    """Keys that are not mutually comparable: the sorting falls back to insertion order (the documented mechanism), and the
    result must still be a fixed point - also for mappings large enough for the sort to make partial progress before it fails."""
    n = r.choice([3, 5, 8, 20, 64, 65, 70, 130])
    keys = []
    seen = set()
    while len(keys) < n:
        k = r.choice([r.randint(-500, 500), 'k%d' % r.randint(0, 500), r.randint(0, 50) + 0.5, None, True, 's'])
        if k not in seen and not (k is True and 1 in seen) and not (k == 1 and True in seen) and not (k is False):
            seen.add(k)
            keys.append(k)
    if all(isinstance(k, (int, float)) and not isinstance(k, bool) for k in keys) or all(isinstance(k, str) for k in keys):
        keys.append(None if None not in seen else 'zz')
    d = {k: j for j, k in enumerate(keys)}
    try:
        sorted(d)
        return
    except TypeError:
        pass
    for dname in yamlapi.loaders(DUMPERS):
        lname = 'CSafeLoader' if dname.startswith('C') else 'SafeLoader'
        case = {'mixed_keys': [repr(k) for k in keys][:80], 'D': dname}
        ctx.crumb(case)
        t_sorted = dump(d, dname, {}, sort_keys=True)
        t_plain = dump(d, dname, {}, sort_keys=False)
        ctx.stat('mixed_key_checks')
        if t_sorted != t_plain:
            ctx.violation(case, {'what': 'keys that cannot be sorted are not written in insertion order', 'sorted_text': t_sorted[:300], 'insertion_text': t_plain[:300]}, None)
            continue
        # a mapping whose keys cannot be sorted must not switch sorting off for what is represented after it (a sibling, a
        # later document): the text of a sortable mapping is independent of its insertion order there as well
        ks = ['k%02d' % j for j in range(12)]
        a_ord, b_ord = list(ks), list(ks)
        r.shuffle(a_ord)
        r.shuffle(b_ord)
        sa, sb = {x: 1 for x in a_ord}, {x: 1 for x in b_ord}
        ctx.stat('sort_after_unsortable_checks')
        if dump([d, sa, {'n': sa}], dname, {}) != dump([d, sb, {'n': sb}], dname, {}):
            ctx.violation(case, {'what': 'after a mapping with unsortable keys, a later mapping in the same document is written in insertion order although sort_keys is on',
                                 'text': dump([d, sa], dname, {})[:400]}, None)
        if yaml.dump_all([d, sa], Dumper=getattr(yaml, dname)) != yaml.dump_all([d, sb], Dumper=getattr(yaml, dname)):
            ctx.violation(case, {'what': 'after a document with unsortable keys, a later document of the same dump_all is written in insertion order although sort_keys is on'}, None)
        back = yaml.load(t_sorted, Loader=getattr(yaml, lname))
        t2 = dump(back, dname, {}, sort_keys=True)
        if t2 != t_sorted:
            ctx.violation(case, {'what': 'dump(load(dump(x))) differs from dump(x) for keys that cannot be sorted', 'first': t_sorted[:300], 'second': t2[:300]}, None)


def objects_case(r, ctx, i):
    """The same two clauses over the object universe of C17 (full dumper, unsafe loader): the text is a function of the graph,
    not of the addresses its objects happen to live at, and dump(load(dump(x))) == dump(x)."""
    import pickle
    from . import c17
    gs, classes = SH.gen_spec(r, cycles=True)
    if any(n[0] in ('set', 'frozenset') and len(n[1]) > 1 for n in gs['nodes']):
        ctx.stat('objects_skipped_set_order')        # iteration order of a rebuilt set is not its insertion order (cf. F12)
        return
    opts = O.gen(r, axes=('default_flow_style', 'canonical', 'indent', 'width', 'allow_unicode', 'default_style'))
    ctx.case(core.h64('obj', repr(gs), repr(sorted(opts.items(), key=str))), True, ['objects'] + sorted(classes))
    for dname, lname in (('Dumper', 'UnsafeLoader'), ('CDumper', 'CUnsafeLoader')):
        if not hasattr(yaml, dname):
            continue
        case = {'objects': gs, 'opts': opts, 'D': dname, 'L': lname}
        ctx.crumb(case)
        try:
            x = SH.build(gs)
            t1 = yaml.dump(x, Dumper=getattr(yaml, dname), **opts)
            t2 = yaml.dump(SH.build(gs), Dumper=getattr(yaml, dname), **opts)
        except (yaml.YAMLError, RecursionError):
            ctx.stat('objects_dump_failed_see_C17')
            continue
        ctx.stat('object_dumps', 2)
        if t1 != t2:
            ctx.violation(case, {'what': 'two dumps of equal object graphs built at different addresses differ (same process)', 'a': t1[:500], 'b': t2[:500]}, None)
            continue
        try:
            back = yaml.load(t1, Loader=getattr(yaml, lname))
        except yaml.YAMLError:
            ctx.stat('objects_load_failed_see_C17')
            continue
        except Exception as e:
            ctx.violation(case, {'what': 'dump(load(dump(x))) cannot be evaluated: loading the dumped text raised a non-YAML exception', 'exc': type(e).__name__, 'msg': str(e)[:200], 'text': t1[:600]}, None)
            continue
        m = bisim.diff(x, back, track_tuples=True)
        changes_itself = False
        if m is not None:
            # classes whose restore is not the identity (a __setstate__ that records the restore, volatile attributes dropped by
            # __getstate__): the reference for 'what comes back' is pickle's result, and the fixed point starts one step later
            try:
                ref = pickle.loads(pickle.dumps(x, 2))
                m2 = bisim.diff(ref, back, track_tuples=True)
            except Exception:
                m2 = m
            if m2 is not None:
                if c17.classify(gs, opts, dname, lname, m2):
                    ctx.stat('objects_known_finding_see_C17')
                else:
                    ctx.stat('objects_value_differs_see_C17')
                continue
            changes_itself = True
        try:
            t3 = yaml.dump(back, Dumper=getattr(yaml, dname), **opts)
            if changes_itself:
                t1 = t3
                t3 = yaml.dump(yaml.load(t1, Loader=getattr(yaml, lname)), Dumper=getattr(yaml, dname), **opts)
        except (yaml.YAMLError, RecursionError) as e:
            ctx.violation(case, {'what': 'the loaded object graph cannot be dumped / loaded again', 'exc': type(e).__name__, 'first': t1[:500]}, None)
            continue
        ctx.stat('object_fixed_point_checks')
        if t3 != t1:
            ctx.violation(case, {'what': 'dump(load(dump(x))) differs from dump(x) (object graph)', 'first': t1[:600], 'second': t3[:600], 'starting_one_step_later': changes_itself}, None)


def run(spec, ctx):
    seed = spec['seed']
    k = spec['shard']
    if spec['kind'] == 'objects':
        r = random.Random(core.h64('C16obj', seed, k))
        for i in range(spec['n']):
            objects_case(r, ctx, i)
        return
    digests = []
    off = spec.get('offset', 0)
    for i in range(off, off + spec['n']):
        vs, opts, classes, big = case_for(seed, i)
        case = {'seed': seed, 'i': i, 'perm': k, 'opts': O.jsonable(opts)}
        ctx.crumb(case)
        ctx.case(core.h64('C16', seed, i), big, sorted(classes))
        if i < off + 2:
            ctx.sample({'spec': vs, 'opts': O.jsonable(opts)})
        row = []
        for dname in yamlapi.loaders(DUMPERS):
            try:
                row.append(digest(dump(V.build(vs, perm_seed=k * 7919 + i), dname, opts)))
            except yaml.YAMLError:
                row.append('exc')
            ctx.stat('relational_dumps')
        digests.append(row)
        if i % 3 == k % 3:
            inproc_checks(vs, opts, k * 7919 + i, ctx, case)
        if i % 4 == k % 4:
            others = [case_for(seed, i + 1)[0], case_for(seed, i + 2)[0]]
            stream_position_check([others[0], vs, others[1]][:2 + (i % 2)], opts, k * 7919 + i, ctx, dict(case, stream_of=[i + 1, i, i + 2][:2 + (i % 2)]))
    r2 = random.Random(core.h64('C16mixed', seed, k))
    for i in range(60):
        mixed_keys_case(r2, ctx, i)
    ctx.note('digests', {'shard': k, 'hashseed': spec.get('hashseed'), 'offset': off, 'rows': digests, 'seed': seed})


def one_text(seed, i, perm, dname):
    vs, opts, classes, big = case_for(seed, i)
    t = dump(V.build(vs, perm_seed=perm * 7919 + i), dname, opts)
    return t if isinstance(t, str) else t.decode('latin-1')


def replay(case, ctx):
    """Cross-interpreter replay: the same case in fresh interpreters with the two hash seeds / permutations."""
    ctx.case(core.h64(repr(case)), True)
    if 'shards' in case:
        outs = []
        for sh, hs in case['shards']:
            env = dict(os.environ, PYTHONHASHSEED=str(hs))
            p = subprocess.run([sys.executable, '-m', 'vf.checks.c16', str(case['seed']), str(case['i']), str(sh), case['D']], capture_output=True, text=True, env=env, timeout=300)
            outs.append(p.stdout)
        if len(set(outs)) > 1:
            ctx.violation(case, {'what': 'dump output depends on the hash seed / insertion order / process', 'outputs': [o[:500] for o in outs]}, None)
    elif case.get('stream_of'):
        vs, opts, classes, big = case_for(case['seed'], case['i'])
        stream_position_check([case_for(case['seed'], j)[0] for j in case['stream_of']], opts, case['perm'] * 7919 + case['i'], ctx, case)
    elif 'objects' in case:
        replay_objects(case, ctx)
    else:
        vs, opts, classes, big = case_for(case['seed'], case['i'])
        inproc_checks(vs, opts, case['perm'] * 7919 + case['i'], ctx, case)


def replay_objects(case, ctx):
    class R:
        pass
    gs, opts = case['objects'], case['opts']
    real_gen, real_ogen = SH.gen_spec, O.gen
    try:
        SH.gen_spec = lambda r, cycles=True: (gs, set())
        O.gen = lambda r, axes=None: opts
        objects_case(None, ctx, 0)
    finally:
        SH.gen_spec, O.gen = real_gen, real_ogen


def summarize(agg, tier):
    """The relational monitor: all workers must have produced the same bytes for the same case."""
    by_off = {}
    for n in agg['notes']:
        if n.get('kind') == 'digests':
            p = n['payload']
            by_off.setdefault(p['offset'], []).append(p)
    compared = 0
    mism = 0
    for off, lst in by_off.items():
        if len(lst) < 2:
            continue
        ref = lst[0]
        for other in lst[1:]:
            for j, (a, b) in enumerate(zip(ref['rows'], other['rows'])):
                for d, (x, y) in enumerate(zip(a, b)):
                    compared += 1
                    if x != y:
                        mism += 1
                        if mism <= 12:
                            agg['viols'].append({'t': 'viol', 'mech': None,
                                                 'case': {'seed': ref.get('seed', 1), 'i': off + j, 'D': DUMPERS[d],
                                                          'shards': [[ref['shard'], ref['hashseed']], [other['shard'], other['hashseed']]]},
                                                 'detail': {'what': 'dump output depends on the hash seed / insertion order / process',
                                                            'case_index': off + j, 'dumper': DUMPERS[d], 'hashseeds': [ref['hashseed'], other['hashseed']]}})
    out = {'relational_comparisons': compared, 'relational_mismatches': mism, 'interpreters': sorted({str(p['hashseed']) for l in by_off.values() for p in l})}
    if not compared:
        out['_inconclusive'] = 'the relational monitor compared nothing (fewer than two workers reported)'
    return out


if __name__ == '__main__':
    sys.stdout.write(one_text(int(sys.argv[1]), int(sys.argv[2]), int(sys.argv[3]), sys.argv[4]))
