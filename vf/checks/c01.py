"""C01 - safe loading is confined to plain data (CALL/audit/sys.modules/canary monitors + result-type
walk + outcome class + table monitor)."""
import datetime
import os
import random
import sys
import tempfile

import yaml

from .. import core, yamlapi
from ..gen import tagdocs as TD, corpus
from ..mon import confine
from ..ref import bisim

ID = 'C01'
LEVEL = 'exploration'
LEVEL_TEXT = ('Exploration: the product tag form x target name x node kind x context x spelling (plus every tag and prefix found '
              'at run time in the constructor tables of every loader class, mutated corpus files and core tags on foreign text) '
              'is loaded through the six safe/base loader classes and the two safe_* functions while sys.monitoring CALL events '
              'of all yaml code, audit events (import/exec/compile/os.system/Popen/open), sys.modules, canary counters and a '
              'digest of the package state are watched; the result graph is walked for foreign types; the effective constructor '
              'tables of the safe classes are compared with the closed YAML 1.1 repertoire. A second worker first registers constructors, '
              'multi-constructors, resolvers and YAMLObject classes the way applications do (module-level helpers with and without '
              'Loader=, class methods on the non-safe loaders and on subclasses of the safe ones) and demands that none of it reaches a '
              'safe loader. Hostile targets include iterator objects, computed class attributes, unimported submodules of imported '
              'packages and unimported parent packages.' + " Contexts include merged and duplicate entries that are constructed and then overwritten, and the value of (and entries beside) a '=' key.")
LEVEL_NOTE = ('Held on the documents generated. The monitors see calls made from yaml code objects and audit events; a call made '
              'from inside C code without an audit event would only show through the canaries and sys.modules.')
TECHNIQUE = 'runtime monitoring: sys.monitoring CALL events + audit hook + state digest + result-type walk over a tag/context product'
DESIGN_REF = 'DESIGN.md section 3, C01'
RULE = ('documents: (python/* tag forms + other non-core tags + run-time table keys) x 29 target names x 5 node kinds x 15 contexts x '
        '4 spellings, sampled to budget with every tag x kind pair present; mutated construct-python/loader-error corpus files; core '
        'tags on foreign text; each x 6 loader classes (+ safe_load/safe_load_all) x str/bytes. A case is one document; non-trivial '
        '= it carries a non-core tag or is a mutated corpus file; distinct by text hash')
ASSUMPTIONS = ['nesting bounded (RecursionError out of scope)',
               'a non-core tag placed directly on a merge source is required to be rejected OR to have no effect (see F13 in known_findings.json)']
P = TD.P
SAFE = ['SafeLoader', 'CSafeLoader']
BASE = ['BaseLoader', 'CBaseLoader']
CORE = {'null', 'bool', 'int', 'float', 'binary', 'timestamp', 'omap', 'pairs', 'set', 'str', 'seq', 'map', 'merge', 'value', 'yaml'}
PLAIN_TYPES = (type(None), bool, int, float, str, bytes, datetime.date, datetime.datetime, list, dict, set)
FOREIGN = ['!!int x', '!!int ""', '!!bool maybe', '!!bool ""', '!!timestamp x', '!!float ""', '!!float x', '!!binary ' + chr(0xe9), '!!binary "@@"', '!!null x',
           '!!int [1]', '!!float {a: 1}', '!!bool [a]', '!!timestamp [a]', '!!binary [a]', '!!str [a]', '!!str {a: b}', '!!seq a', '!!seq {a: b}', '!!map a', '!!map [a]',
           '!!set a', '!!set [a]', '!!omap a', '!!omap {a: b}', '!!omap [a]', '!!omap [{a: 1, b: 2}]', '!!omap [[a, b]]', '!!pairs a', '!!pairs {a: b}', '!!pairs [a]',
           '!!pairs [{a: 1, b: 2}]', '!!int 0x_', '!!int 0b', '!!int 1:2:x', '!!int 1__', '!!int -', '!!int +', '!!float .', '!!float -', '!!float 1:x.5', '!!float .inf.',
           '!!timestamp 2001-13-41', '!!timestamp 2001-01-01T25:00:00', '!!timestamp 2001-01-01 00:00:00+99:99', '!!timestamp 0000-01-01',
           '0x_', '0b_', '-0x_', '2001-13-41', '2001-02-30', '2001-01-01T24:00:00', '{[a]: b}', '{{a: b}: c}', '? [a]\n: b', '&a {*a : b}', '&a [*a]',
           '&a {k: *a}', '<<: a', '<<: [a]', '<<: [[a]]', '<<: {a: b}', 'x: {<<: 1}', '&a {<<: *a}', '!!set {? [a]}', '!!merge a', '!!value a', '!!yaml a', '=', '<<', '- =', '{=: 1}',
           '!!int ' + '9' * 5000, '9' * 5000, '1e' + '9' * 400, '0x' + 'f' * 5000, '1:' * 2000 + '1']


def _reg_expect():
    import datetime
    e = {}
    for t, safe, basev in (('1.2.3', ['1.2.3'], ['1.2.3']), ('- 1.2.3\n- 10.20.30', [['1.2.3', '10.20.30']], [['1.2.3', '10.20.30']]),
                           ('v: 1.2.3', [{'v': '1.2.3'}], [{'v': '1.2.3'}]), ('pk: {a: 1}', [{'pk': {'a': 1}}], [{'pk': {'a': '1'}}]),
                           ('pk: [a]', [{'pk': ['a']}], [{'pk': ['a']}]), ('"@abc"', ['@abc'], ['@abc']),
                           ('k: 2001-01-01', [{'k': datetime.date(2001, 1, 1)}], [{'k': '2001-01-01'}])):
        e[(t, False)] = repr(safe)
        e[(t, True)] = repr(basev)
    return e


REG_PLAIN_EXPECT = _reg_expect()


def plan(tier, seed):
    q = tier == 'quick'
    n = 12 if q else 14
    specs = [{'kind': 'product', 'shard': i, 'of': n, 'sample': 0.09 if q else 1.0, 'cext': 'plain'} for i in range(n)]
    specs.append({'kind': 'foreign', 'shard': 0, 'cext': 'plain'})
    specs.append({'kind': 'registered', 'shard': 0, 'cext': 'plain'})
    for i in range(2 if q else 8):
        specs.append({'kind': 'corpus', 'shard': i, 'n': 1500 if q else 20000, 'cext': 'plain'})
    return specs


def walk_types(obj, allowed, allow_tuple2=True, allowed_ids=()):
    """Returns a description of the first foreign object in the graph, or None."""
    seen = set()
    stack = [(obj, False)]
    while stack:
        x, in_list = stack.pop()
        if id(x) in allowed_ids:
            continue
        t = type(x)
        if t is tuple and allow_tuple2 and in_list and len(x) == 2:
            stack.append((x[0], False))
            stack.append((x[1], False))
            continue
        if t not in allowed:
            return '%s object %s' % (t.__name__, repr(x)[:80])
        if t in (list, dict, set):
            if id(x) in seen:
                continue
            seen.add(id(x))
            if t is list:
                stack.extend((y, True) for y in x)
            elif t is dict:
                for k, v in x.items():
                    stack.append((k, False))
                    stack.append((v, False))
            else:
                stack.extend((y, False) for y in x)
    return None


def effective_table(cls, attr):
    """MRO-resolved class attribute (the table a loader instance would see)."""
    return getattr(cls, attr)


ALLOWED_ON_SAFE = set()       # tags an application has itself opted in to the safe loaders (registered shard)
BASE_TABLES_MAY_BE_USED = [False]


def table_violations():
    out = []
    classes = {n: getattr(yaml, n) for n in yamlapi.loaders(SAFE + BASE)}
    classes['SafeConstructor'] = yaml.constructor.SafeConstructor
    classes['BaseConstructor'] = yaml.constructor.BaseConstructor
    for n, cls in classes.items():
        cons = effective_table(cls, 'yaml_constructors')
        multi = effective_table(cls, 'yaml_multi_constructors')
        if n.startswith(('Base', 'CBase')):
            if (cons or multi) and not BASE_TABLES_MAY_BE_USED[0]:
                out.append((n, 'Base constructor tables are not empty: %s %s' % (sorted(map(str, cons)), sorted(map(str, multi)))))
            continue
        for k in cons:
            if k is None:
                continue
            if not (isinstance(k, str) and k.startswith(P) and k[len(P):] in CORE) and k not in ALLOWED_ON_SAFE:
                out.append((n, 'constructor registered for a non-core tag: %r' % (k,)))
        if multi:
            out.append((n, 'multi-constructors registered on a safe class: %s' % sorted(map(str, multi))))
        if None not in cons:
            out.append((n, 'no fallback (None) entry: unknown tags would not reach construct_undefined'))
        else:
            # behaviour, not name: the fallback must raise ConstructorError on a probe node
            try:
                ld = yaml.SafeLoader('')
                cons[None](ld, yaml.nodes.ScalarNode('!probe', 'x'))
                out.append((n, 'the None fallback constructor returned instead of raising'))
            except yaml.constructor.ConstructorError:
                pass
            except Exception as e:
                out.append((n, 'the None fallback raised %s instead of ConstructorError' % type(e).__name__))
    # safe_load / safe_load_all must bind a loader whose constructor tables are the safe ones
    return out


class Harness:
    def __init__(self, ctx, loader_names, targets_extra=None):
        self.ctx = ctx
        self.tmp = tempfile.mkdtemp(prefix='vf_canary_')
        self.canary = confine.install_canaries(self.tmp)
        import os as _os, subprocess, builtins
        t = {'os.system': _os.system, 'subprocess.Popen': subprocess.Popen, 'builtins.eval': builtins.eval, 'builtins.exec': builtins.exec,
             'builtins.print': builtins.print, 'builtins.open': builtins.open, 'yaml.load': yaml.load, 'os.path.join': _os.path.join,
             'vf_canary.Canary': self.canary.Canary, 'vf_canary.canary_fn': self.canary.canary_fn, 'vf_canary.instance': self.canary.instance,
             'vf_canary.Plain': self.canary.Plain, 'yaml.constructor.Constructor': yaml.constructor.Constructor, 'os.popen': _os.popen,
             'builtins.__import__': builtins.__import__, 'builtins.compile': builtins.compile, 'builtins.getattr': None}
        t.pop('builtins.getattr')
        if targets_extra:
            t.update(targets_extra)
        self.conf = confine.Confinement(t, self.canary)
        self.loader_names = yamlapi.loaders(loader_names)
        self.snap = None
        self.calibrate()

    def calibrate(self):
        """Targets that the library itself calls while loading a benign, tag-free document are not evidence of
        anything named by a document (e.g. safe_load -> yaml.load): drop them from the flag set, by identity."""
        benign = 'a: [1, 2.5, yes, 2001-01-01, ~, "s"]\nb: {c: !!binary aGk=, d: !!set {x}, e: !!omap [k: v]}\n'
        self.dropped = []
        for lname in self.loader_names + ['safe_load_all', 'safe_load', 'full_load', 'full_load_all']:
            fn = lname if '_load' in lname else None
            self.conf.begin()
            try:
                if fn:
                    r = getattr(yaml, fn)(benign)
                    if fn.endswith('_all'):
                        list(r)
                else:
                    yaml.load(benign, Loader=getattr(yaml, lname))
            except Exception:
                pass
            self.conf.active = False
            for ev in self.conf.events:
                if ev[0] == 'call':
                    for i, name in list(self.conf.flag_ids.items()):
                        if name == ev[1]:
                            del self.conf.flag_ids[i]
                            self.dropped.append(name)

    def canary_snapshot(self):
        c = self.canary
        return (sorted(k for k in vars(c) if not k.startswith('__')), sorted(vars(c.Canary)), dict(vars(c.instance)), dict(vars(c.Plain)).keys() and sorted(vars(c.Plain)), c.VALUE,
                c.ITER.__length_hint__())        # an iterator named by a document must not be advanced

    def load(self, text, lname, as_bytes=False, fn=None):
        """Returns (status, result-or-exception, flagged events)."""
        data = text.encode('utf-8') if as_bytes else text
        snap = self.canary_snapshot()
        self.conf.begin()
        try:
            try:
                if fn == 'safe_load_all':
                    res = list(yaml.safe_load_all(data))
                elif fn == 'safe_load':
                    res = [yaml.safe_load(data)]
                else:
                    res = list(yaml.load_all(data, Loader=getattr(yaml, lname)))
                st = 'ok'
            finally:
                flagged = self.conf.end()
        except yaml.YAMLError as e:
            st, res = 'yamlerror', e
        except RecursionError as e:
            st, res = 'recursion', e
        except Exception as e:
            st, res = 'nonyaml', e
        if self.canary_snapshot() != snap:
            flagged.append(('canary-mutated', 'attributes of the canary module/class/instance changed'))
        return st, res, flagged


def check_safe_doc(h, text, info, ctx, tagged=True, untagged_text=None, cls='product'):
    """All clauses for one document over the safe and base loaders."""
    case = {'text': text, 'info': info}
    ctx.crumb(case)
    for i, lname in enumerate(h.loader_names + ['safe_load_all', 'safe_load']):
        fn = lname if lname.startswith('safe_') else None
        if fn == 'safe_load' and '\n---' in text or (fn == 'safe_load' and '...\n' in text):
            continue
        as_bytes = (i + len(text)) % 2 == 1
        st, res, flagged = h.load(text, lname, as_bytes, fn)
        ctx.stat('loads')
        base = lname in BASE
        who = {'loader': lname, 'bytes': as_bytes}
        if flagged:
            ctx.violation(case, dict(who, what='confinement monitor fired', events=flagged[:6]), None)
        if st == 'nonyaml':
            ctx.violation(case, dict(who, what='non-YAML exception', exc=type(res).__name__, msg=str(res)[:200]), None)
            continue
        if st == 'recursion':
            ctx.stat('recursion_out_of_scope')
            continue
        if st == 'ok':
            bad = walk_types(res, (str, list, dict) if base else PLAIN_TYPES, allow_tuple2=not base)
            if bad:
                ctx.violation(case, dict(who, what='result contains a foreign object', obj=bad), None)
        if not tagged:
            ctx.stat('outcome:%s' % (st if st != 'yamlerror' else type(res).__name__))
            continue
        if base:
            # tags are not interpreted at all: same outcome as the untagged document
            st2, res2, _ = h.load(untagged_text, lname, as_bytes, None)
            same = (st == st2) and (st != 'ok' or bisim.diff(res, res2, ordered=True) is None) and (st != 'yamlerror' or type(res) is type(res2))
            if not same:
                ctx.violation(case, dict(who, what='tag had an effect on a Base loader', with_tag=repr(res)[:200], without=repr(res2)[:200]), None)
            ctx.stat('base_no_effect_checked')
            continue
        if st == 'yamlerror':
            if isinstance(res, yaml.constructor.ConstructorError):
                ctx.stat('rejected_constructor_error')
            else:
                ctx.violation(case, dict(who, what='non-core tag rejected with another error class', exc=type(res).__name__, msg=str(res)[:200]), None)
        else:
            # loaded although it carries a non-core tag
            if info.get('merge_source'):
                st2, res2, _ = h.load(untagged_text, lname, as_bytes, fn)
                if st2 == 'ok' and bisim.diff(res, res2, ordered=True) is None:
                    ctx.stat('merge_source_tag_ignored')
                    ctx.violation(case, dict(who, what='non-core tag directly on a merge source is ignored, not rejected (no effect on the result)'), 'F13')
                    continue
            if info.get('value_key'):
                st2, res2, _ = h.load(untagged_text, lname, as_bytes, fn)
                if st2 == 'ok' and bisim.diff(res, res2, ordered=True) is None:
                    ctx.stat('value_key_tag_ignored')
                    ctx.violation(case, dict(who, what='non-core tag on or beside the value of a "=" key under a scalar core tag is ignored, not rejected (no effect on the result)'), 'F22')
                    continue
            ctx.violation(case, dict(who, what='non-core tag accepted by a safe loader', result=repr(res)[:300]), None)


def runtime_tags():
    """Every exact tag and multi-constructor prefix registered on any loader-ish class in the process."""
    tags, prefixes = set(), set()
    seen = set()
    todo = [yaml.constructor.BaseConstructor]
    while todo:
        c = todo.pop()
        if c in seen:
            continue
        seen.add(c)
        todo.extend(c.__subclasses__())
        for k in c.__dict__.get('yaml_constructors', {}) or {}:
            if isinstance(k, str):
                tags.add(k)
        for k in c.__dict__.get('yaml_multi_constructors', {}) or {}:
            if isinstance(k, str):
                prefixes.add(k)
    return sorted(tags), sorted(prefixes)


def product_docs(shard, of, sample, seed):
    r = random.Random(core.h64('C01prod', seed))
    tags = TD.python_tags() + TD.OTHER_TAGS
    rt, rp = runtime_tags()
    for t in rt:
        if not (t.startswith(P) and t[len(P):] in CORE) and t not in tags:
            tags.append(t)
    for p in rp:
        for n in ('os.system', 'vf_canary.Canary', ''):
            if p + n not in tags:
                tags.append(p + n)
    k = 0
    for tag in tags:
        for kind in TD.KINDS:
            must = True          # every tag x kind pair at least once
            combos = [(c, s) for c in TD.CONTEXTS for s in TD.SPELLINGS]
            r.shuffle(combos)
            for c, s in combos:
                keep = must or r.random() < sample or (c.startswith('after_handle_doc') and s == 'bangbang' and kind in ('scalar_arg', 'seq', 'map'))
                rr = TD.render(tag, kind, c, s) if keep else None
                if rr is None:
                    continue
                must = False
                if k % of == shard:
                    un = TD.render('', kind, c, s)
                    yield tag, kind, c, s, rr[0], rr[1], un[0]
                k += 1


KEEP_ALIVE = []


def app_registrations(canary):
    """What applications do to the *other* loaders (module-level helpers with and without Loader=, class methods on
    the unsafe/full classes and on subclasses of the safe ones, YAMLObject): none of it may reach a safe loader.
    Returns (registered tags, texts whose plain meaning must not change, constructor functions)."""
    import re
    fns = {}

    def mk(name, multi=False):
        if multi:
            def f(loader, suffix, node, _n=name):
                canary.bump('registered ' + _n)
                return canary.Canary()
        else:
            def f(loader, node, _n=name):
                canary.bump('registered ' + _n)
                return canary.Canary()
        f.__name__ = 'app_' + name
        fns['app:' + name] = f
        return f
    tags = []
    yaml.add_constructor('!app0', mk('c_default'))
    tags.append('!app0')
    yaml.add_multi_constructor('!appm0:', mk('m_default', True))
    tags.append('!appm0:x')
    yaml.add_multi_constructor('tag:yaml.org,2002:python/app:', mk('m_py', True))
    tags.append('tag:yaml.org,2002:python/app:os.system')
    targets = ['Loader', 'FullLoader', 'UnsafeLoader'] + (['CLoader', 'CFullLoader', 'CUnsafeLoader'] if yamlapi.HAVE_C else [])
    for i, ln in enumerate(targets):
        L = getattr(yaml, ln)
        yaml.add_constructor('!app%d' % (i + 1), mk('c_' + ln), Loader=L)
        L.add_constructor('!cls%d' % i, mk('cc_' + ln))
        yaml.add_multi_constructor('!appm%d:' % (i + 1), mk('m_' + ln, True), Loader=L)
        L.add_multi_constructor('!clsm%d:' % i, mk('cm_' + ln, True))
        tags += ['!app%d' % (i + 1), '!cls%d' % i, '!appm%d:x' % (i + 1), '!clsm%d:x' % i]
    for i, base in enumerate(yamlapi.loaders(['SafeLoader', 'CSafeLoader', 'BaseLoader'])):
        Sub = type('AppSub' + base, (getattr(yaml, base),), {})
        KEEP_ALIVE.append(Sub)          # an application's loader class lives as long as the application: the state digest walks __subclasses__()
        Sub.add_constructor('!sub%d' % i, mk('sub_' + base))
        Sub.add_multi_constructor('!subm%d:' % i, mk('subm_' + base, True))
        yaml.add_constructor('!subf%d' % i, mk('subf_' + base), Loader=Sub)
        tags += ['!sub%d' % i, '!subm%d:x' % i, '!subf%d' % i]

    class AppObj(yaml.YAMLObject):
        yaml_tag = '!appobj'

    class AppObj2(yaml.YAMLObject):
        yaml_tag = '!appobj2'
        yaml_loader = yaml.UnsafeLoader
    tags += ['!appobj', '!appobj2']
    # implicit / path resolvers registered the default way must not change what the safe loaders see
    yaml.add_implicit_resolver('!ver', re.compile('^[0-9]+[.][0-9]+[.][0-9]+$'), list('0123456789'))
    yaml.add_implicit_resolver('!at', re.compile('^@[a-z]+$'), ['@'])
    yaml.add_path_resolver('!path', ['pk'], dict)
    plain = ['1.2.3', '- 1.2.3\n- 10.20.30', 'v: 1.2.3', 'pk: {a: 1}', 'pk: [a]', '"@abc"', 'k: 2001-01-01']
    return tags, plain, fns, mk


def selftest(h, ctx):
    """Monitor liveness: the same monitors must fire when the unsafe loader does what a document names."""
    ok = 0
    for doc, need in (('!!python/object/apply:vf_canary.canary_fn []', 'call'), ('!!python/object/new:vf_canary.Canary []', 'canary'),
                      ('!!python/object:vf_canary.Canary {a: 1}', 'canary')):
        st, res, flagged = h.load(doc, 'UnsafeLoader')
        kinds = {f[0] for f in flagged}
        if st == 'ok' and kinds & {'call', 'call-with-target', 'call-bound', 'canary'}:
            ok += 1
    ctx.stat('monitor_selftest_fired', ok)
    ctx.stat('monitor_selftest_expected', 3)


def run(spec, ctx):
    h = Harness(ctx, SAFE + BASE)
    selftest(h, ctx)
    tv = table_violations()
    for n, msg in tv:
        ctx.violation({'class': n, 'table': True}, {'what': 'constructor table of a safe class is not closed', 'msg': msg}, None)
    ctx.stat('table_checks')
    d0 = confine.state_digest()
    kind = spec['kind']
    if kind == 'product':
        n = 0
        for tag, nk, c, s, text, info, un in product_docs(spec['shard'], spec['of'], spec['sample'], spec['seed']):
            ctx.case(core.h64(text), True, ['kind:' + nk, 'ctx:' + c, 'spell:' + s])
            if n < 3:
                ctx.sample({'tag': tag, 'kind': nk, 'context': c, 'spelling': s, 'text': text})
            n += 1
            check_safe_doc(h, text, dict(info, untagged=un, tagged=True), ctx, True, un)
    elif kind == 'registered':
        base_plain = None
        tags, plain, fns, mk = app_registrations(h.canary)
        d0 = confine.state_digest()          # the registrations themselves are the application's doing
        h.conf.targets.update({id(f): n for n, f in fns.items()})
        h.conf.keep.extend(fns.values())
        h.conf.flag_ids.update({id(f): n for n, f in fns.items()})
        # liveness: the registrations are live on the loaders they were made for
        live = 0
        for ln, doc in (('Loader', '!app0 x'), ('UnsafeLoader', '!appm0:x y'), ('Loader', '!appobj {a: 1}')):
            st, res, flagged = h.load(doc, ln)
            live += st == 'ok' and not isinstance(res[0], (str, dict))
        ctx.stat('registered_selftest_live', live)
        ctx.stat('registered_selftest_expected', 3)
        r = random.Random(core.h64('C01reg', spec['seed']))
        for tag in tags:
            for nk in TD.KINDS:
                combos = [(c, s2) for c in TD.CONTEXTS for s2 in ('bangbang', 'verbatim')]
                r.shuffle(combos)
                done = 0
                for c, s2 in combos:
                    rr = TD.render(tag, nk, c, s2)
                    if rr is None:
                        continue
                    un = TD.render('', nk, c, s2)
                    ctx.case(core.h64(rr[0]), True, ['registered', 'kind:' + nk, 'ctx:' + c])
                    check_safe_doc(h, rr[0], dict(rr[1], untagged=un[0], tagged=True), ctx, True, un[0])
                    done += 1
                    if done >= 6:
                        break
        ctx.sample({'class': 'application-registered tags', 'tags': tags[:12]})
        # Two more things applications do, each followed by the same questions.  (1) A constructor registered on the Base
        # loaders themselves (they are loaders like any other): the safe loaders, which share ancestors with them, must
        # not see it, and must keep their closed table and their raising fallback.  (2) An application class that opts in
        # to the safe loaders (yaml_loader = [SafeLoader, CSafeLoader]): that one tag is the application's decision, but a
        # class defined afterwards with the default loaders must not follow it there.
        BASE_TABLES_MAY_BE_USED[0] = True
        for bn in yamlapi.loaders(['BaseLoader', 'CBaseLoader']):
            yaml.add_constructor('!onbase', mk('onbase_' + bn), Loader=getattr(yaml, bn))
            getattr(yaml, bn).add_multi_constructor('!onbasem:', mk('onbasem_' + bn, True))
        h.conf.flag_ids.update({id(f): n for n, f in fns.items()})
        h.conf.targets.update({id(f): n for n, f in fns.items()})
        h.conf.keep.extend(fns.values())

        class OptIn(yaml.YAMLObject):
            yaml_tag = '!optin'
            yaml_loader = [getattr(yaml, n) for n in yamlapi.loaders(['SafeLoader', 'CSafeLoader'])]
        ALLOWED_ON_SAFE.add('!optin')

        class AfterOptIn(yaml.YAMLObject):
            yaml_tag = '!afteroptin'

        class AfterOptIn2(yaml.YAMLObject):
            yaml_tag = '!afteroptin2'
            yaml_loader = yaml.FullLoader
        KEEP_ALIVE.extend([OptIn, AfterOptIn, AfterOptIn2])
        d0 = confine.state_digest()
        all_names = h.loader_names
        h.loader_names = [n for n in all_names if n not in BASE]
        try:
            for tag in ('!onbase', '!onbasem:x', '!afteroptin', '!afteroptin2', P + 'python/name:os.system', '!foo'):
                for nk in TD.KINDS:
                    for c in ('root', 'seq_item', 'map_value', 'map_key', 'anchored_aliased', 'second_doc', 'in_set'):
                        rr = TD.render(tag, nk, c, 'bangbang' if not tag.startswith('!onbasem') else 'verbatim')
                        if rr is None:
                            continue
                        un = TD.render('', nk, c, 'bangbang')
                        ctx.case(core.h64('late', rr[0]), True, ['registered_late', 'kind:' + nk, 'ctx:' + c])
                        check_safe_doc(h, rr[0], dict(rr[1], untagged=un[0], tagged=True), ctx, True, un[0])
        finally:
            h.loader_names = all_names
        ctx.stat('late_registration_batches')
        for t in plain:
            ctx.case(core.h64('plain', t), True, ['registered_plain'])
            for lname in h.loader_names:
                st, res, flagged = h.load(t, lname)
                ctx.stat('loads')
                want = REG_PLAIN_EXPECT.get((t, lname in BASE))
                if st != 'ok' or flagged or repr(res) != want:
                    ctx.violation({'text': t, 'info': {'registered_plain': True}}, {'loader': lname, 'what': 'a resolver registered on the default loaders changed what a safe loader builds',
                                                                                   'got': repr(res)[:200], 'want': want, 'events': flagged[:4]}, None)
    elif kind == 'foreign':
        for t in FOREIGN:
            for wrap in ('%s', '- %s', 'k: %s', '? %s\n: v', '- &a %s\n- *a'):
                if '\n' in t and wrap != '%s':
                    continue
                text = wrap % t
                ctx.case(core.h64(text), True, ['foreign'])
                check_safe_doc(h, text, {}, ctx, tagged=False, cls='foreign')
        ctx.sample({'class': 'core tag on foreign text', 'text': FOREIGN[0]})
    elif kind == 'corpus':
        r = random.Random(core.h64('C01corpus', spec['seed'], spec['shard']))
        files = [f for f in corpus.files(exts=None) if f[0].startswith(('construct-', 'recursive-', 'emit', 'spec-')) or f[0].endswith('.loader-error')]
        if not files:
            files = corpus.files()
        for i in range(spec['n']):
            name, raw = r.choice(files)
            t = raw.decode('utf-8', 'replace')
            if i % 5:
                t = corpus.mutate_text(r, t)
            if t.count('[') + t.count('{') > 120:
                continue
            ctx.case(core.h64(t), True, ['corpus'])
            if i < 2:
                ctx.sample({'class': 'mutated corpus', 'file': name, 'text': t[:300]})
            check_safe_doc(h, t, {}, ctx, tagged=False, cls='corpus')
    tv = table_violations()
    for n, msg in tv:
        ctx.violation({'class': n, 'table': True}, {'what': 'constructor table of a safe class is not closed (after the batch)', 'msg': msg}, None)
    diff = confine.digest_diff(d0, confine.state_digest())
    if diff:
        ctx.violation({'batch': kind}, {'what': 'library-global state changed during safe loading', 'changed': diff[:10]}, None)
    ctx.stat('call_events', h.conf.ncalls)
    ctx.statmax('max:distinct_callees', len(h.conf.callees))
    core.rmtree(h.tmp)


def replay(case, ctx):
    h = Harness(ctx, SAFE + BASE)
    ctx.case(core.h64(repr(case)), True)
    if case.get('table'):
        for n, msg in table_violations():
            ctx.violation({'class': n, 'table': True}, {'what': 'constructor table of a safe class is not closed', 'msg': msg}, None)
        return
    text = case['text']
    info = case.get('info') or {}
    un = None
    if info.get('untagged') is not None:
        un = info['untagged']
    tagged = 'untagged' in info or bool(info.get('tagged'))
    check_safe_doc(h, text, info, ctx, tagged=tagged, untagged_text=un)
    ctx.stat('call_events', h.conf.ncalls)
    core.rmtree(h.tmp)


def summarize(agg, tier):
    st = agg['stats']
    out = {'call_events_seen': st.get('call_events', 0), 'distinct_callees_seen': st.get('max:distinct_callees', 0)}
    out['targets_dropped_by_calibration'] = 'targets the library itself calls on benign documents (e.g. yaml.load from safe_load) are not flagged'
    if not st.get('loads') or not st.get('call_events'):
        out['_inconclusive'] = 'the CALL monitor observed no event from yaml code (or nothing was loaded)'
    elif st.get('registered_selftest_live', 0) < st.get('registered_selftest_expected', 0):
        out['_inconclusive'] = 'the application-style registrations did not take effect on the loaders they were made for'
    elif st.get('monitor_selftest_fired', 0) < st.get('monitor_selftest_expected', 1):
        out['_inconclusive'] = 'monitor self-test: the monitors did not fire on an unsafe load that calls/instantiates a canary (%d of %d)' % (st.get('monitor_selftest_fired', 0), st.get('monitor_selftest_expected', 0))
    return out
