"""C15 - dump output honours the formatting options (characters, line breaks, result type/encoding, document
markers and directives, indentation, canonical form)."""
import random
import re

import yaml

from .. import core, yamlapi
from ..gen import values as V, options as O, events as EV
from ..ref import canonical
from . import c05

ID = 'C15'
LEVEL = 'exploration'
LEVEL_TEXT = ('Exploration: the raw output of dump / dump_all (G-val values, all four dumper classes) and of emit (G-ev event streams, both '
              'emitters) under generated option points is inspected by output monitors: the library\'s own parser accepts it; '
              'without allow_unicode only printable ASCII and line breaks occur; every maximal CR/LF token is the requested '
              'line_break (LF for an invalid request); with no stream the result is str for encoding=None and bytes decodable in '
              'the requested encoding otherwise (UTF-16 with the matching BOM, UTF-8 without); explicit_start, explicit_end, version '
              'and tags show in every re-parsed DocumentStart/End event and in the text; every line whose first token is a '
              'block-context BLOCK-ENTRY or KEY sits at a column divisible by the effective indent (requested if 2-9, else 2); '
              'canonical output is parsed by an independent parser of the canonical form (ref.canonical) and must denote the same '
              'events as the library\'s parser reports.')
LEVEL_NOTE = 'Held on the outputs generated.'
TECHNIQUE = 'runtime monitoring: output-format monitors (character set, line-break tokens, type/encoding/BOM, re-parsed markers, token columns) + independent canonical-form parser'
DESIGN_REF = 'DESIGN.md section 3, C15'
RULE = ('a case is one output text: (values or event stream, options, dumper); non-trivial = the output has more than one line or a '
        'non-ASCII/special character in the data; distinct by hash of (input, options, dumper)')
ASSUMPTIONS = ['encoding in {None, utf-8, utf-16-le, utf-16-be} (the documented names)']
ASCII_OK = re.compile(r'^[\x20-\x7e\r\n]*$')
BREAK = re.compile(r'\r\n|\r|\n')


def plan(tier, seed):
    q = tier == 'quick'
    specs = [{'kind': 'dump', 'shard': i, 'n': 3500 if q else 50000, 'cext': 'plain'} for i in range(8 if q else 10)]
    specs += [{'kind': 'emit', 'shard': i, 'n': 3500 if q else 50000, 'cext': 'plain'} for i in range(5 if q else 8)]
    return specs


def decode_output(out, encoding):
    """Returns (text, problem)."""
    if encoding is None:
        if not isinstance(out, str):
            return None, 'encoding=None but the result is %s' % type(out).__name__
        return out, None
    if not isinstance(out, bytes):
        return None, 'encoding=%r but the result is %s' % (encoding, type(out).__name__)
    try:
        if encoding == 'utf-8':
            if out.startswith(b'\xef\xbb\xbf'):
                return None, 'UTF-8 output starts with a BOM'
            return out.decode('utf-8'), None
        bom = b'\xff\xfe' if encoding == 'utf-16-le' else b'\xfe\xff'
        if not out.startswith(bom):
            return None, '%s output does not start with the matching BOM' % encoding
        return out[2:].decode(encoding), None
    except UnicodeDecodeError as e:
        return None, 'result is not decodable as %s: %s' % (encoding, e)


def effective_break(lb):
    return lb if lb in ('\r', '\n', '\r\n') else '\n'


def effective_indent(ind):
    return ind if isinstance(ind, int) and 1 < ind < 10 else 2


def check_output(text, opts, ctx, who, dname, ndocs=None, events=None):
    """All format clauses on one decoded output.  Returns list of (message, mechanism)."""
    bad = []
    # (a) the library's own parser accepts it
    try:
        P = list(yaml.parse(text, Loader=yaml.Loader))
    except yaml.YAMLError as e:
        return [('output rejected by the library\'s own parser: %s' % str(e).replace('\n', ' ')[:200], None)], None
    # (b) characters
    if not opts.get('allow_unicode'):
        if not ASCII_OK.match(text):
            ch = next(c for c in text if not (' ' <= c <= '~' or c in '\r\n'))
            bad.append(('without allow_unicode the output contains %r' % ch, None))
    # (c) line breaks
    want = effective_break(opts.get('line_break'))
    for m in BREAK.finditer(text):
        if m.group() != want:
            bad.append(('line break %r at offset %d is not the requested %r' % (m.group(), m.start(), want), None))
            break
    # (e) markers and directives in the re-parsed events
    ds = [p for p in P if isinstance(p, yaml.DocumentStartEvent)]
    de = [p for p in P if isinstance(p, yaml.DocumentEndEvent)]
    if ndocs is not None and len(ds) != ndocs:
        bad.append(('%d documents written, %d read back' % (ndocs, len(ds)), None))
    if events is None:
        if opts.get('explicit_start') and not all(p.explicit for p in ds):
            bad.append(('explicit_start requested but a document starts implicitly', None))
        if opts.get('explicit_end') and not all(p.explicit for p in de):
            bad.append(('explicit_end requested but a document ends implicitly', None))
        if opts.get('version'):
            if not all(p.version and tuple(p.version) == tuple(opts['version']) for p in ds):
                bad.append(('version %r requested but a document lacks the %%YAML directive' % (opts['version'],), None))
            if len(re.findall('(?:^|[\r\n' + chr(0x85) + chr(0x2028) + chr(0x2029) + '])%YAML ', text)) != len(ds):
                bad.append(('number of %YAML lines differs from the number of documents', None))
        elif any(p.version for p in ds):
            bad.append(('no version requested but a %YAML directive was written', None))
        if opts.get('tags'):
            if not all(p.tags == opts['tags'] for p in ds):
                bad.append(('tags %r requested but a document has %r' % (opts['tags'], [p.tags for p in ds][:3]), None))
        elif any(p.tags for p in ds):
            bad.append(('no tags requested but a %TAG directive was written', None))
    # (f) indentation of block entries and keys
    if not opts.get('canonical'):
        ind = effective_indent(opts.get('indent'))
        try:
            flow = 0
            last_line = -1
            for t in yaml.scan(text, Loader=yaml.Loader):
                n = type(t).__name__
                if n in ('FlowSequenceStartToken', 'FlowMappingStartToken'):
                    flow += 1
                elif n in ('FlowSequenceEndToken', 'FlowMappingEndToken'):
                    flow -= 1
                line = t.start_mark.line
                if n in ('BlockEntryToken', 'KeyToken') and flow == 0 and line != last_line:
                    ctx.stat('indent_lines_checked')
                    if t.start_mark.column % ind:
                        bad.append(('block %s at line %d, column %d: not a multiple of the effective indent %d' % (
                            'entry' if n == 'BlockEntryToken' else 'key', line + 1, t.start_mark.column, ind), None))
                        break
                if n not in ('BlockMappingStartToken', 'BlockSequenceStartToken', 'BlockEndToken', 'StreamStartToken', 'StreamEndToken'):
                    last_line = t.end_mark.line          # a later token on the line where this one ends is not the first of its line
        except yaml.YAMLError:
            pass
    # (g) canonical form
    if opts.get('canonical'):
        ctx.stat('canonical_outputs')
        try:
            ce = canonical.parse(text)
        except canonical.CanonicalError as e:
            bad.append(('canonical output rejected by the independent canonical-form parser: %s' % e, None))
            ce = None
        except Exception as e:
            bad.append(('canonical output broke the independent parser (%s: %s)' % (type(e).__name__, str(e)[:100]), None))
            ce = None
        if ce is not None:
            le = canonical.events_of_yaml(P)
            if ce != le:
                d = next(((a, b) for a, b in zip(ce, le) if a != b), (len(ce), len(le)))
                bad.append(('canonical output denotes other events for the canonical-form parser than for the library: %r' % (d,), None))
    return bad, P


def dump_case(r, ctx, i):
    nd = r.choice([1, 1, 1, 2, 3])
    specs = [V.gen_spec(r)[0] for _ in range(nd)]
    opts = O.gen(r)
    dname = r.choice(yamlapi.loaders(['SafeDumper', 'CSafeDumper', 'Dumper', 'CDumper']))
    if r.random() < 0.1:
        opts['indent'] = r.choice([0, 1, 10, 12, -3])
    if r.random() < 0.1:
        opts['line_break'] = r.choice(['x', '', chr(0x85), '\n\n'])
    case = {'level': 'dump', 'specs': specs, 'opts': O.jsonable(opts), 'D': dname}
    ctx.crumb(case)
    run_dump(specs, opts, dname, ctx, case, i)


def run_dump(specs, opts, dname, ctx, case, i=99):
    vals = [V.build(s) for s in specs]
    try:
        if len(vals) == 1:
            out = yaml.dump(vals[0], Dumper=getattr(yaml, dname), **opts)
        else:
            out = yaml.dump_all(vals, Dumper=getattr(yaml, dname), **opts)
    except yaml.YAMLError as e:
        ctx.violation(case, {'what': 'dump rejected plain data', 'exc': yamlapi.exc_sig(e)}, None)
        return
    except Exception as e:
        ctx.violation(case, {'what': 'dump raised a non-YAML exception', 'exc': type(e).__name__, 'msg': str(e)[:200]}, None)
        return
    text, prob = decode_output(out, opts.get('encoding'))
    ctx.stat('outputs')
    ctx.stat('encoding:%s' % opts.get('encoding'))
    if prob:
        ctx.violation(case, {'what': prob, 'head': repr(out[:40])}, None)
        return
    nt = text.count('\n') + text.count('\r') > 1 or not ASCII_OK.match(text)
    ctx.case(core.h64('dump', repr(specs), repr(sorted(opts.items(), key=str)), dname), nt, ['level:dump', 'D:' + dname])
    if i < 2:
        ctx.sample({'opts': O.jsonable(opts), 'D': dname, 'text': text[:300]})
    bad, P = check_output(text, opts, ctx, case, dname, ndocs=len(vals))
    for msg, mech in bad:
        if mech is None and dname.startswith('C'):
            mech = classify_c(text, opts, msg)
        ctx.violation(case, {'what': msg, 'text': text[:1200]}, mech)


def classify_c(text, opts, msg):
    return None


def emit_case(r, ctx, i):
    spec = EV.Gen(r, set()).stream()
    opts = EV.gen_opts(r)
    dname = r.choice(yamlapi.loaders(['Dumper', 'CDumper']))
    case = {'level': 'emit', 'spec': spec, 'opts': opts, 'D': dname}
    ctx.crumb(case)
    run_emit(spec, opts, dname, ctx, case, i)


def run_emit(spec, opts, dname, ctx, case, i=99):
    E = EV.build(spec)
    try:
        out = yaml.emit(EV.build(spec), Dumper=getattr(yaml, dname), **opts)
    except yaml.YAMLError as e:
        ctx.violation(case, {'what': 'emit rejected a well-formed stream', 'exc': yamlapi.exc_sig(e)}, None)
        return
    except Exception as e:
        ctx.violation(case, {'what': 'emit raised a non-YAML exception', 'exc': type(e).__name__, 'msg': str(e)[:200]}, None)
        return
    ctx.stat('outputs')
    if not isinstance(out, str):
        ctx.violation(case, {'what': 'emit without a stream returned %s' % type(out).__name__}, None)
        return
    nt = out.count('\n') + out.count('\r') > 1 or not ASCII_OK.match(out)
    ctx.case(core.h64('emit', repr(spec), repr(sorted(opts.items(), key=str)), dname), nt, ['level:emit', 'D:' + dname])
    bad, P = check_output(out, opts, ctx, case, dname, ndocs=sum(1 for e in spec if e[0] == 'DS'), events=E)
    for msg, mech in bad:
        if dname == 'CDumper':
            mech = c05.classify(spec, opts, dname, 'Loader', msg, E, P, out)
        ctx.violation(case, {'what': msg, 'text': out[:1200]}, mech)
    if P is not None and not bad:
        # every document's directives as the events asked
        ds_in = [e for e in E if isinstance(e, yaml.DocumentStartEvent)]
        ds_out = [p for p in P if isinstance(p, yaml.DocumentStartEvent)]
        for a, b in zip(ds_in, ds_out):
            if (tuple(a.version) if a.version else None) != (tuple(b.version) if b.version else None) or (a.tags or None) != (b.tags or None) or (a.explicit and not b.explicit):
                mech = c05.classify(spec, opts, dname, 'Loader', 'directives', E, P, out) if dname == 'CDumper' else None
                ctx.violation(case, {'what': 'document directives/markers of the events are not reflected in the output', 'text': out[:800]}, mech)
                break


def run(spec, ctx):
    r = random.Random(core.h64('C15', spec['seed'], spec['kind'], spec['shard']))
    for i in range(spec['n']):
        if spec['kind'] == 'dump':
            dump_case(r, ctx, i)
        else:
            emit_case(r, ctx, i)


def replay(case, ctx):
    ctx.case(core.h64(repr(case)), True)
    if case['level'] == 'dump':
        run_dump(case['specs'], O.unjson(case['opts']), case['D'], ctx, case)
    else:
        run_emit(case['spec'], case['opts'], case['D'], ctx, case)


def summarize(agg, tier):
    st = agg['stats']
    out = {'outputs_inspected': st.get('outputs', 0), 'indent_lines_checked': st.get('indent_lines_checked', 0), 'canonical_outputs': st.get('canonical_outputs', 0)}
    if not st.get('outputs') or not st.get('indent_lines_checked') or not st.get('canonical_outputs'):
        out['_inconclusive'] = 'an output monitor observed nothing (outputs / indent lines / canonical outputs)'
    return out
