"""C07 - the result does not depend on how the input is delivered (form x chunking), including reader
errors and their offsets."""
import io
import random

import yaml

from .. import core, yamlapi, sigs
from ..gen import gdoc, corpus, strings as S
from ..mon import streams
from ..ref import bisim

ID = 'C07'
LEVEL = 'exploration'
LEVEL_TEXT = ('Exploration: every generated document is delivered as str, UTF-8, UTF-8+BOM, UTF-16-LE+BOM, UTF-16-BE+BOM bytes, StringIO, '
              'BytesIO and through instrumented short-read text/byte streams under chunk schedules (every single split for inputs '
              '<= 200 units, all pairs <= 40 units, 1-unit trickle, random schedules, targeted splits inside multi-byte sequences / '
              'surrogate pairs / CR LF / after the first byte, padding that moves the document over the 4096, 8192 and 16384 refill '
              'boundaries); a relational monitor compares tokens, events, nodes, objects, every mark (index, line, column) and the '
              'error signature: identically within one byte/character sequence whatever the chunking, and modulo the documented '
              'BOM index shift across forms; planted non-printable characters and malformed byte sequences must be reported as '
              'ReaderError with the planted character and the offset the form implies. A Reader.update hook records which hostile '
              'interleavings actually happened.')
LEVEL_NOTE = ('Held on the documents and schedules generated. Stream name, error snippet and StreamStart.encoding are delivery '
              'descriptors and are not compared; LibYAML reader-error offsets are byte offsets and are compared within one encoding.')
TECHNIQUE = 'runtime monitoring: relational oracle over delivery forms and read-size schedules (instrumented streams) + Reader.update hook counters'
DESIGN_REF = 'DESIGN.md section 3, C07'
RULE = ('a case is one document (G-doc stream, corpus file, mutated corpus text, planted reader defect, boundary-padded text); it is '
        'run through scan/parse/compose_all/load_all (Safe) in every delivery of both back-ends; an evaluation is one case; '
        'non-trivial = at least 20 deliveries compared and the document is non-empty; distinct by document hash')
ASSUMPTIONS = ['the stream wrapper honours the read(size) contract (1..size units until EOF)',
               'documents carry at most one reader-level defect (eager whole-buffer checking of str/bytes input versus lazy checking of '
               'streams legitimately reorders a reader error and an earlier scanner error)']
OPS = ('scan', 'parse', 'compose_all', 'load_all')
BIG = 10 ** 9
NEL, LS, PS, BOM = chr(0x85), chr(0x2028), chr(0x2029), chr(0xFEFF)


def plan(tier, seed):
    q = tier == 'quick'
    specs = []
    for i in range(8 if q else 14):
        specs.append({'kind': 'docs', 'shard': i, 'n': 40 if q else 800, 'cext': 'plain'})
    for i in range(3 if q else 6):
        specs.append({'kind': 'defects', 'shard': i, 'n': 60 if q else 1500, 'cext': 'plain'})
    for i in range(4 if q else 8):
        specs.append({'kind': 'boundary', 'shard': i, 'of': 4 if q else 8, 'cext': 'plain'})
    if not q:
        specs.append({'kind': 'docs', 'shard': 100, 'n': 150, 'cext': 'asan', 'conly': True})
        specs.append({'kind': 'defects', 'shard': 100, 'n': 200, 'cext': 'asan', 'conly': True})
    return specs


# ---------------------------------------------------------------------------------------------
# deliveries

FAMILIES = ['text', 'utf8', 'utf8bom', 'u16le', 'u16be']


def family_data(text, fam):
    """(unit sequence, bom shift of the Python reader's index)"""
    if fam == 'text':
        return text, 0
    if fam == 'utf8':
        return text.encode('utf-8'), 0
    if fam == 'utf8bom':
        return b'\xef\xbb\xbf' + text.encode('utf-8'), 1
    if fam == 'u16le':
        return b'\xff\xfe' + text.encode('utf-16-le'), 1
    return b'\xfe\xff' + text.encode('utf-16-be'), 1


def make_schedule(desc):
    """desc: None | {'head': [...]} (then full reads) | {'cycle': [...]}"""
    if desc is None:
        return None
    if 'cycle' in desc:
        return list(desc['cycle'])
    head = list(desc['head'])
    return lambda k, size: head[k] if k < len(head) else size


def schedules_for(data, r, budget):
    """Chunk schedule descriptions for one unit sequence."""
    n = len(data)
    out = [None, {'cycle': [1]}] if n <= 3000 else [None]
    out += [{'cycle': [2]}, {'cycle': [3, 1]}, {'cycle': [7]}, {'head': [1]}, {'head': [1, 1]}, {'head': [2]}]
    if n <= 200:
        singles = list(range(1, n))
    else:
        singles = set(r.sample(range(1, n), 30))
        singles |= set(targeted_splits(data)[:60])
        singles = sorted(singles)
    out += [{'head': [k]} for k in singles]
    if n <= 40:
        for i in range(1, n):
            for j in range(i + 1, n):
                out.append({'head': [i, j - i]})
    for _ in range(6):
        out.append({'cycle': [r.choice([1, 2, 3, 5, 7, 64, 4095, 4096]) for _ in range(r.randint(1, 5))]})
    if len(out) > budget:
        keep = out[:8] + r.sample(out[8:], budget - 8)
        out = keep
    return out


def targeted_splits(data):
    """Split positions inside multi-byte sequences, surrogate pairs, CR LF."""
    out = []
    if isinstance(data, str):
        for i in range(1, len(data)):
            if data[i - 1] == '\r' and data[i] == '\n':
                out.append(i)
        return out
    if data[:2] in (b'\xff\xfe', b'\xfe\xff'):
        le = data[:2] == b'\xff\xfe'
        for i in range(2, len(data) - 1, 2):
            hi = data[i + 1] if le else data[i]
            if 0xD8 <= hi <= 0xDB:
                out += [i + 1, i + 2, i + 3]
            unit = data[i:i + 2]
            if unit == (b'\r\x00' if le else b'\x00\r'):
                out += [i + 1, i + 2, i + 3]
        out += [1, 3]
        return out
    for i in range(1, len(data)):
        if data[i] & 0xC0 == 0x80:
            out.append(i)
        if data[i - 1] == 13 and data[i] == 10:
            out.append(i)
    return out


# ---------------------------------------------------------------------------------------------
# one run -> signature

def run_op(op, lname, src, shift):
    """(status, items, error signature).  Marks are index-shifted by `shift` (BOM counted as a character by the Python reader)."""
    items = []
    L = getattr(yaml, lname)
    try:
        if op == 'scan':
            for t in yaml.scan(src, Loader=L):
                items.append(sigs.tok_sig(t, marks=True, shift=shift if t.start_mark.index or t.end_mark.index else 0))
        elif op == 'parse':
            for e in yaml.parse(src, Loader=L):
                items.append(sigs.ev_sig(e, marks=True, shift=shift if e.start_mark.index or e.end_mark.index else 0))
        elif op == 'compose_all':
            for n in yaml.compose_all(src, Loader=L):
                items.append(sigs.node_sig(n, marks=True, shift=shift))
        else:
            for d in yaml.load_all(src, Loader=L):
                items.append(bisim.sig(d))
        return 'ok', items, None
    except yaml.YAMLError as e:
        return 'err', items, err_sig(e, shift)
    except RecursionError:
        return 'recursion', items, None
    except Exception as e:
        return 'nonyaml', items, {'cls': type(e).__name__, 'msg': str(e)[:120]}


def err_sig(e, shift):
    d = {'cls': type(e).__name__}
    for a in ('context', 'problem', 'note'):
        if hasattr(e, a):
            d[a] = getattr(e, a)
    for a in ('context_mark', 'problem_mark'):
        m = getattr(e, a, None)
        if m is not None:
            d[a] = (m.index - shift, m.line, m.column)
    if isinstance(e, yaml.reader.ReaderError):
        d.update({'character': e.character, 'position': e.position, 'reason': e.reason})
    return d


def norm_cross(sig, backend):
    """What must be equal across forms: everything, except the raw offset of a reader error (compared by rule)."""
    st, items, err = sig
    if err is not None and err.get('cls') == 'ReaderError':
        err = {k: v for k, v in err.items() if k != 'position'}
    return (st, items if st == 'ok' else None, err)


def norm_within(sig):
    st, items, err = sig
    return (st, items if st == 'ok' else None, err)


class Hooks:
    """Reader.update / determine_encoding observers: evidence that the hostile interleavings happened."""

    def __init__(self, ctx):
        self.ctx = ctx
        R = yaml.reader.Reader
        self.installed = 0
        if hasattr(R, 'update') and hasattr(R, 'update_raw'):
            orig_update, orig_raw = R.update, R.update_raw
            hooks = self

            def update(rd, length):
                r = orig_update(rd, length)
                hooks.ctx.stat('hook:update_calls')
                rb = getattr(rd, 'raw_buffer', None)
                if getattr(rd, 'stream', None) is not None and rb is not None and len(rb) > 0 and isinstance(rb, bytes):
                    hooks.ctx.stat('hook:refill_carried_undecoded_bytes')
                buf = getattr(rd, 'buffer', '')
                if buf[-1:] == '\r':
                    hooks.ctx.stat('hook:refill_ended_in_CR')
                return r

            def update_raw(rd, *a, **k):
                before = getattr(rd, 'stream_pointer', 0)
                r = orig_raw(rd, *a, **k)
                hooks.ctx.stat('hook:update_raw_calls')
                got = getattr(rd, 'stream_pointer', 0) - before
                if got == 4096:
                    hooks.ctx.stat('hook:full_4096_reads')
                if getattr(rd, 'raw_decode', 1) is None and getattr(rd, 'encoding', None) is None and before > 0:
                    hooks.ctx.stat('hook:encoding_detection_needed_more_reads')
                return r
            R.update, R.update_raw = update, update_raw
            self.installed = 2
        ctx.stat('hook:installed', self.installed)


def deliveries(text, r, budget, families=FAMILIES, sched=None):
    """Yield (family, delivery description, source factory, shift)."""
    for fam in families:
        data, shift = family_data(text, fam)
        yield fam, {'via': 'direct'}, (lambda d=data: d), shift
        yield fam, {'via': 'io'}, (lambda d=data: io.StringIO(d) if isinstance(d, str) else io.BytesIO(d)), shift
        for sd in (schedules_for(data, r, budget) if sched is None else sched):
            yield fam, {'via': 'stream', 'schedule': sd}, (lambda d=data, sd=sd: streams.ReadStream(d, make_schedule(sd))), shift


def check_document(text, ctx, r, case, backends, expect=None, budget=60, families=FAMILIES, ops=OPS, sched=None):
    """expect: for planted defects {'kind': 'nonprintable'|'badbytes', ...}"""
    ndeliv = 0
    for bname, loaders in backends:
        ref_cross = {}
        for fam, desc, mk, shift in deliveries(text, r, budget, families, sched):
            sh = shift if bname == 'py' else 0
            full = {}
            for op in ops:
                lname = loaders[1] if op == 'load_all' else loaders[0]
                full[op] = run_op(op, lname, mk(), sh)
                ctx.stat('op_runs')
            ndeliv += 1
            if desc['via'] == 'direct':
                ref_fam_store = {op: norm_within(full[op]) for op in ops}
                cur = {op: norm_cross(full[op], bname) for op in ops}
                if not ref_cross:
                    ref_cross = {'fam': fam, 'sig': cur, 'full': full}
                else:
                    for op in ops:
                        if cur[op] != ref_cross['sig'][op]:
                            mech = classify(text, bname, fam, full[op], ref_cross['full'][op])
                            ctx.violation(dict(case, backend=bname, op=op, family=fam), {
                                'what': 'result differs between delivery forms', 'reference_form': ref_cross['fam'], 'form': fam,
                                'diff': sig_diff(ref_cross['sig'][op], cur[op])}, mech)
                            break
                if expect is not None:
                    check_expected(text, ctx, case, bname, fam, full, expect, shift)
            else:
                for op in ops:
                    if norm_within(full[op]) != ref_fam_store[op]:
                        mech = classify(text, bname, fam, full[op], None)
                        ctx.violation(dict(case, backend=bname, op=op, family=fam, delivery=desc), {
                            'what': 'result depends on the chunking / stream delivery of the same ' + ('characters' if fam == 'text' else 'bytes'),
                            'delivery': desc, 'diff': sig_diff(ref_fam_store[op], norm_within(full[op]))}, mech)
                        break
            if desc['via'] == 'stream':
                ctx.stat('chunked_deliveries')
    return ndeliv


def sig_diff(a, b):
    if a[0] != b[0]:
        return repr({'status': [a[0], b[0]], 'errors': [a[2], b[2]]})[:700]
    if a[2] != b[2]:
        return repr({'errors': [a[2], b[2]]})[:700]
    la, lb = a[1] or [], b[1] or []
    for i, (x, y) in enumerate(zip(la, lb)):
        if x != y:
            return repr({'item': i, 'reference': x, 'got': y})[:700]
    return repr({'len': [len(la), len(lb)]})


def has_lone_surrogate(s):
    return any(0xD800 <= ord(c) <= 0xDFFF for c in s)


def classify(text, bname, fam, sig, refsig):
    # F3: LibYAML text path + lone surrogate -> UnicodeEncodeError from the glue
    if bname == 'c' and fam == 'text' and has_lone_surrogate(text) and sig[0] == 'nonyaml' and (sig[2] or {}).get('cls') == 'UnicodeEncodeError':
        return 'F3'
    return None


def check_expected(text, ctx, case, bname, fam, full, expect, shift):
    """Planted defect: every op must end in ReaderError naming the planted character at the implied offset."""
    for op in OPS:
        st, items, err = full[op]
        if st != 'err' or err.get('cls') != 'ReaderError':
            mech = None
            if bname == 'c' and fam == 'text' and has_lone_surrogate(text) and st == 'nonyaml' and err.get('cls') == 'UnicodeEncodeError':
                mech = 'F3'
            ctx.violation(dict(case, backend=bname, op=op, family=fam, families=[fam]), {'what': 'planted reader defect not reported as ReaderError',
                                                                                          'got': repr((st, err))[:300], 'expect': expect}, mech)
            return
        ctx.stat('reader_errors_checked')
        if expect['kind'] == 'nonprintable':
            if err['character'] != expect['ord']:
                ctx.violation(dict(case, backend=bname, op=op, family=fam), {'what': 'ReaderError names another character', 'got': err, 'expect': expect}, None)
                return
            if bname == 'py':
                want = expect['char_offset'] + shift
            else:
                data, _ = family_data(text, fam)
                pre = text[:expect['char_offset']]
                want = {'text': len(pre.encode('utf-8')), 'utf8': len(pre.encode('utf-8')), 'utf8bom': 3 + len(pre.encode('utf-8')),
                        'u16le': 2 + len(pre.encode('utf-16-le')), 'u16be': 2 + len(pre.encode('utf-16-le'))}[fam]
            if err['position'] != want:
                ctx.violation(dict(case, backend=bname, op=op, family=fam), {'what': 'ReaderError.position is not the offset of the planted character',
                                                                              'got': err['position'], 'want': want, 'expect': expect}, None)
                return


def run_badbytes(raw, ctx, r, case, backends, budget=60):
    """Malformed byte sequences: only byte families exist.  Reference = the bytes object; every chunking must agree exactly."""
    n = 0
    for bname, loaders in backends:
        ref = None
        for desc, mk in [({'via': 'direct'}, lambda: raw), ({'via': 'io'}, lambda: io.BytesIO(raw))] + \
                [({'via': 'stream', 'schedule': sd}, (lambda sd=sd: streams.ReadStream(raw, make_schedule(sd)))) for sd in schedules_for(raw, r, budget)]:
            full = {op: norm_within(run_op(op, loaders[1] if op == 'load_all' else loaders[0], mk(), 0)) for op in OPS}
            ctx.stat('op_runs', len(OPS))
            n += 1
            if ref is None:
                ref = full
                for op in OPS:
                    st, items, err = full[op]
                    if st == 'err' and err.get('cls') == 'ReaderError':
                        ctx.stat('decode_errors_checked')
                        if not (0 <= err['position'] <= len(raw)):
                            ctx.violation(dict(case, backend=bname, op=op), {'what': 'ReaderError.position outside the input', 'got': err}, None)
                        elif case.get('bad_at') is not None and bname == 'py' and not (case['bad_at'][0] <= err['position'] <= case['bad_at'][1]):
                            ctx.violation(dict(case, backend=bname, op=op), {'what': 'ReaderError.position is not inside the malformed sequence',
                                                                              'got': err, 'planted_range': case['bad_at']}, None)
                continue
            if desc['via'] == 'stream':
                ctx.stat('chunked_deliveries')
            for op in OPS:
                if full[op] != ref[op]:
                    ctx.violation(dict(case, backend=bname, op=op, delivery=desc), {
                        'what': 'result depends on the chunking / stream delivery of the same bytes', 'delivery': desc,
                        'diff': sig_diff(ref[op], full[op])}, None)
                    break
    return n


# ---------------------------------------------------------------------------------------------
# generators

def printable_only(t):
    return yaml.reader.Reader.NON_PRINTABLE.search(t) is None if hasattr(yaml.reader.Reader, 'NON_PRINTABLE') else True


def gen_doc(r):
    c = r.random()
    if c < 0.45:
        text, exp, docs, classes, ends = gdoc.gen_stream(r)
        return text, 'gdoc'
    files = corpus.files(max_size=1500)
    name, raw = r.choice(files)
    try:
        t = raw.decode('utf-8')
    except UnicodeDecodeError:
        t = raw.decode('latin-1')
    t = t.lstrip(BOM)
    if c < 0.7:
        cls = 'corpus'
    else:
        t = corpus.mutate_text(r, t)
        cls = 'mutated'
    t = ''.join(ch for ch in t if ch != BOM and ch != '\x00')
    if not printable_only(t) or has_lone_surrogate(t):
        t = ''.join(ch if (ch in '\t\n\r' or ' ' <= ch <= '~') else 'u' for ch in t)
    return t[:1200], cls


NONPRINT = [0x00, 0x01, 0x07, 0x08, 0x0b, 0x0c, 0x0e, 0x1b, 0x1f, 0x7f, 0x80, 0x84, 0x86, 0x9f, 0xfffe, 0xffff, 0xd800, 0xdfff]


def gen_defect(r):
    """A valid document with exactly one reader-level defect."""
    base = r.choice(['a: b\nc: [1, 2]\n', 'k: "caf' + chr(0xe9) + ' ' + chr(0x4e2d) + chr(0x1F600) + '"\r\nl: m\r\n',
                     '- x\n- y: z\n  w: ' + chr(0x263a) + '\n', '# c\n' * r.randint(0, 40) + 'key: value\n',
                     ('- ' + chr(0x1F600) * 3 + '\n') * r.randint(1, 30), 'p: |\n  lit ' + chr(0xe9) + '\n  two\n'])
    pad = r.choice([0, 0, 0, 4090, 4096, 8190, 16380])
    if pad:
        base = '# ' + 'p' * r.randint(pad - 10, pad + 10) + '\n' + base
    kind = r.choice(['nonprintable', 'nonprintable', 'badbytes', 'badbytes16'])
    p = r.randrange(len(base) + 1)
    if kind == 'nonprintable':
        o = r.choice(NONPRINT)
        text = base[:p] + chr(o) + base[p:]
        return kind, text, {'kind': 'nonprintable', 'ord': o, 'char_offset': p}
    if kind == 'badbytes':
        pre, post = base[:p].encode('utf-8'), base[p:].encode('utf-8')
        bad = r.choice([b'\xff', b'\x80', b'\xc0\x80', b'\xe2\x82', b'\xf0\x9f\x98', b'\xed\xa0\x80', b'\xf5\x80\x80\x80', b'\xc3', b'\xfe'])
        bom = r.choice([b'', b'', b'\xef\xbb\xbf'])
        raw = bom + pre + bad + post
        return kind, raw, {'bad_at': [len(bom) + len(pre), len(bom) + len(pre) + len(bad) + 3]}
    enc = r.choice(['utf-16-le', 'utf-16-be'])
    bom = b'\xff\xfe' if enc == 'utf-16-le' else b'\xfe\xff'
    pre, post = base[:p].encode(enc), base[p:].encode(enc)
    hi = b'\x00\xd8' if enc == 'utf-16-le' else b'\xd8\x00'
    lo = b'\x00\xdc' if enc == 'utf-16-le' else b'\xdc\x00'
    bad = r.choice([hi, lo, hi + hi, None])
    if bad is None:
        raw = bom + pre + post + b'\x41'        # odd length: truncated data at the very end (a single defect)
    else:
        raw = bom + pre + bad + post
    return 'badbytes', raw, {'bad_at': None}


def backends_for(spec):
    out = []
    if not spec.get('conly'):
        out.append(('py', ('Loader', 'SafeLoader')))
    if yamlapi.HAVE_C:
        out.append(('c', ('CLoader', 'CSafeLoader')))
    return out


def run(spec, ctx):
    r = random.Random(core.h64('C07', spec['seed'], spec['kind'], spec['shard']))
    Hooks(ctx)
    be = backends_for(spec)
    k = spec['kind']
    if k == 'docs':
        if spec['shard'] in (0, 1):
            # an unusual character where a token search starts (line start, after an indicator, alone on a line): after a refill
            # it may be the first character of the reader's window, which must not change what it means
            odd = [chr(0xFEFF), chr(0x85), chr(0x2028), chr(0x2029), chr(0xa0), '\t', chr(0x1F600), chr(0xe9)]
            tpls = ['a: 1\n%sb: 2\n', '- x\n- %sy\n- z\n', 'a: %s\nb: 2\n', '# c\n%s# d\na: 1\n', 'k: "%s"\nl: \'%s\'\n', 'a:\n  %sb: 1\n', '[a, %sb]\n', '--- a\n--- %sb\n', 'a: 1\n\n%s\nb: 2\n']
            for j, ch in enumerate(odd):
                for t in tpls:
                    if (j + len(t)) % 2 != spec['shard']:
                        continue
                    text = 'pad: ' + 'p' * 17 + '\n' + t.replace('%s', ch)
                    case = {'kind': 'doc', 'text': text}
                    ctx.crumb(case)
                    n = check_document(text, ctx, r, case, be, budget=40)
                    ctx.case(core.h64(text), n >= 20, ['doc:odd_at_token_start'])
        for i in range(spec['n']):
            text, cls = gen_doc(r)
            case = {'kind': 'doc', 'text': text}
            ctx.crumb(case)
            if i < 2:
                ctx.sample({'class': cls, 'text': text[:300]})
            budget = 70 if len(text) <= 200 else 40
            n = check_document(text, ctx, r, case, be, budget=budget)
            ctx.case(core.h64(text), n >= 20 and len(text) > 0, ['doc:' + cls, 'len<=40' if len(text) <= 40 else 'len<=200' if len(text) <= 200 else 'len>200'])
    elif k == 'defects':
        for i in range(spec['n']):
            kind, data, info = gen_defect(r)
            if kind == 'nonprintable':
                case = {'kind': 'nonprintable', 'text': data, 'expect': info}
                ctx.crumb(case)
                fams = ['text'] if has_lone_surrogate(data) else FAMILIES      # a lone surrogate exists only as a character
                n = check_document(data, ctx, r, case, be, expect=info, budget=30 if len(fams) > 1 else 100, families=fams)
                ctx.case(core.h64(data), n >= 20, ['defect:nonprintable'])
            else:
                case = {'kind': 'badbytes', 'raw': data, 'bad_at': info['bad_at']}
                ctx.crumb(case)
                n = run_badbytes(data, ctx, r, case, be, budget=40)
                ctx.case(core.h64(data), n >= 20, ['defect:badbytes'])
            if i < 2:
                ctx.sample({'class': kind, 'data': data if len(data) < 200 else data[:200]})
    elif k == 'boundary':
        core_texts = ['k' + chr(0xe9) + ': "' + chr(0x4e2d) + chr(0x1F600) + 'x\\n"\r\n- ' + chr(0x1F600) + '\r\n',
                      chr(0x1F600) * 8 + ': ' + chr(0xe9) * 8 + '\r\n' + 'a: b\r\n']
        j = 0
        bsched = [None, {'cycle': [4096]}, {'cycle': [4095, 1]}, {'cycle': [16384]}, {'head': [1]}]
        for boundary in (4096, 8192, 16384) + ((32768,) if spec.get('tier') == 'thorough' else ()):
            for ct in core_texts:
                for off in range(0, 13):
                    j += 1
                    if j % spec['of'] != spec['shard']:
                        continue
                    text = '#' + 'p' * (boundary - 3 - off) + '\n' + ct
                    case = {'kind': 'doc', 'text': text, 'boundary': boundary}
                    ctx.crumb({'kind': 'boundary', 'boundary': boundary, 'off': off})
                    n = check_document(text, ctx, r, {'kind': 'doc', 'text': None, 'boundary': boundary, 'pad_off': off, 'core': ct}, be,
                                       ops=('scan', 'load_all'), sched=bsched)
                    ctx.case(core.h64(text), n >= 20, ['boundary:%d' % boundary])
        ctx.sample({'class': 'boundary padding', 'core': core_texts[0]})


def replay(case, ctx):
    r = random.Random(1)
    be = backends_for(ctx.spec)
    ctx.case(core.h64(repr(case)), True)
    Hooks(ctx)
    if case.get('kind') == 'badbytes':
        run_badbytes(case['raw'], ctx, r, case, be, budget=80)
        return
    text = case.get('text')
    if text is None and case.get('core') is not None:
        text = '#' + 'p' * (case['boundary'] - 3 - case['pad_off']) + '\n' + case['core']
    check_document(text, ctx, r, {k: v for k, v in case.items() if k in ('kind', 'text', 'expect', 'boundary', 'pad_off', 'core')}, be,
                   expect=case.get('expect'), budget=80, families=case.get('families') or FAMILIES, sched=([case['delivery'].get('schedule')] if case.get('delivery') else None))


def summarize(agg, tier):
    st = agg['stats']
    out = {'hostile_interleavings_observed': {k[5:]: v for k, v in st.items() if k.startswith('hook:')},
           'forms': FAMILIES + ['StringIO/BytesIO of each', 'short-read streams of each'],
           'chunked_deliveries': st.get('chunked_deliveries', 0)}
    if not st.get('chunked_deliveries') or not st.get('op_runs'):
        out['_inconclusive'] = 'no chunked delivery was executed'
    return out
