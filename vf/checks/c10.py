"""C10 - customising one loader/dumper class never changes another (executable registry model +
behavioural probes, each history in a forked child of a warmed worker)."""
import itertools
import json
import os
import random
import re
import sys

import yaml

from .. import core, yamlapi

ID = 'C10'
LEVEL = 'exploration'
LEVEL_TEXT = ('Exploration with an exhaustive slice: every history of length <= 2 (quick) / <= 3 over a reduced operation set (thorough) of '
              '{define subclass, add_constructor, add_multi_constructor, add_representer, add_multi_representer, add_implicit_resolver, '
              'add_path_resolver, YAMLObject subclass, module-level yaml.add_*} over a class lattice (R, A(R), B(R), AA(A)) rooted at each '
              'shipped loader/dumper, plus random longer histories. Each history runs in a forked child (registries are process-global). '
              'After every step the effective table of each of the six registry kinds of every lattice and shipped class is compared '
              'with an executable model of "nearest class in the MRO owning a table; first write copies" (keys, value identity, list '
              'order, and object identity of the tables themselves), and behavioural probes (load/compose/dump through every class) must '
              'agree with the model.' + ' The operation set includes a second-level YAMLObject subclass that only inherits its tag (with and without an overridden yaml_loader / yaml_dumper), which must register nothing.')
LEVEL_NOTE = 'Trusted: the 60-line registry model as the statement of the rule; histories longer than the bound are sampled.'
TECHNIQUE = 'runtime monitoring: executable reference model of the registries vs hooked class state + behavioural probes, forked histories'
DESIGN_REF = 'DESIGN.md section 3, C10'
RULE = ('histories over (operation kind x target class) for each root class; a case is one history; non-trivial = it contains at least one '
        'registration; distinct by (root, history)')
ASSUMPTIONS = ['fork() gives each history a pristine copy of the process-global registries']
ATTRS = ['yaml_constructors', 'yaml_multi_constructors', 'yaml_representers', 'yaml_multi_representers',
         'yaml_implicit_resolvers', 'yaml_path_resolvers']
LOADER_ROOTS = ['SafeLoader', 'FullLoader', 'Loader', 'BaseLoader', 'UnsafeLoader', 'CSafeLoader', 'CLoader']
DUMPER_ROOTS = ['SafeDumper', 'Dumper', 'BaseDumper', 'CSafeDumper', 'CDumper']
LOADER_OPS = ['cons', 'mcons', 'ires', 'pres', 'yobj', 'yobj_sub', 'mod_cons', 'mod_mcons', 'mod_ires', 'defsub']
DUMPER_OPS = ['rep', 'mrep', 'ires', 'pres', 'yobj', 'yobj_sub', 'mod_rep', 'mod_mrep', 'defsub']
NCLS = 4     # R, A, B, AA


def shipped():
    names = ['BaseLoader', 'SafeLoader', 'FullLoader', 'Loader', 'UnsafeLoader', 'BaseDumper', 'SafeDumper', 'Dumper']
    if yamlapi.HAVE_C:
        names += ['CBaseLoader', 'CSafeLoader', 'CFullLoader', 'CLoader', 'CUnsafeLoader', 'CBaseDumper', 'CSafeDumper', 'CDumper']
    out = {n: getattr(yaml, n) for n in names}
    for mod, ns in ((yaml.constructor, ['BaseConstructor', 'SafeConstructor', 'FullConstructor', 'UnsafeConstructor', 'Constructor']),
                    (yaml.representer, ['BaseRepresenter', 'SafeRepresenter', 'Representer']), (yaml.resolver, ['BaseResolver', 'Resolver'])):
        for n in ns:
            out[n] = getattr(mod, n)
    return out


# ------------------------------------------------------------------------------------------------
class Model:
    """owner tables; effective(C, attr) = table of the first class in C.__mro__ that owns attr."""

    def __init__(self, classes):
        self.own = {}
        seen = set()
        for c in classes:
            for k in c.__mro__:
                if k in seen:
                    continue
                seen.add(k)
                for a in ATTRS:
                    if a in k.__dict__:
                        self.own[(k, a)] = self.copy(a, k.__dict__[a])

    @staticmethod
    def copy(attr, t):
        if attr == 'yaml_implicit_resolvers':
            return {k: list(v) for k, v in t.items()}
        return dict(t)

    def owner(self, cls, attr):
        for k in cls.__mro__:
            if (k, attr) in self.own:
                return k
        return None

    def effective(self, cls, attr):
        o = self.owner(cls, attr)
        return None if o is None else self.own[(o, attr)]

    def add(self, cls, attr, key, value, first=None):
        if (cls, attr) not in self.own:
            self.own[(cls, attr)] = self.copy(attr, self.effective(cls, attr) or {})
        t = self.own[(cls, attr)]
        if attr == 'yaml_implicit_resolvers':
            for ch in (first if first is not None else [None]):
                t.setdefault(ch, []).append((key, value))
        else:
            t[key] = value


def compare(model, classes):
    """Real effective tables (and their object identities) against the model.  Returns list of discrepancies."""
    out = []
    for name, c in classes.items():
        for a in ATTRS:
            real = getattr(c, a, None)
            exp = model.effective(c, a)
            if real is None and exp is None:
                continue
            if real is None or exp is None:
                out.append('%s.%s: presence differs' % (name, a))
                continue
            if set(real.keys()) != set(exp.keys()):
                extra = [repr(k)[:40] for k in real.keys() if k not in exp]
                miss = [repr(k)[:40] for k in exp.keys() if k not in real]
                out.append('%s.%s: keys differ (unexpected %s, missing %s)' % (name, a, extra[:4], miss[:4]))
                continue
            for k in exp:
                if a == 'yaml_implicit_resolvers':
                    if len(real[k]) != len(exp[k]) or any(x[0] != y[0] or x[1] is not y[1] for x, y in zip(real[k], exp[k])):
                        out.append('%s.%s[%r]: resolver list differs' % (name, a, k))
                elif real[k] != exp[k]:
                    out.append('%s.%s[%r]: value differs' % (name, a, k))
    # identity structure of the table objects: shared iff same owner in the model
    items = list(classes.items())
    for a in ATTRS:
        byid = {}
        for name, c in items:
            real = getattr(c, a, None)
            if real is None:
                continue
            o = model.owner(c, a)
            prev = byid.setdefault(id(real), (o, name))
            if prev[0] is not o:
                out.append('%s and %s share one %s object although the rule gives them separate tables' % (prev[1], name, a))
        if a == 'yaml_implicit_resolvers':
            lists = {}
            for name, c in items:
                real = getattr(c, a, None) or {}
                o = model.owner(c, a)
                for ch, lst in real.items():
                    prev = lists.setdefault(id(lst), (o, name))
                    if prev[0] is not o:
                        out.append('%s and %s share a per-character resolver list (%r)' % (prev[1], name, ch))
    return out


# ------------------------------------------------------------------------------------------------
class Slot:
    """Unique tokens for the i-th operation of a history."""

    def __init__(self, i):
        self.i = i
        self.tag = '!t%d' % i
        self.cons = lambda loader, node, i=i: ['C', i]
        self.mprefix = '!m%d:' % i
        self.mcons = lambda loader, suffix, node, i=i: ['M', i, suffix]
        self.rtag = '!r%d' % i
        self.rx = re.compile('^tok%d$' % i)
        self.ptag = '!p%d' % i
        self.T = type('T%d' % i, (object,), {})
        self.MB = type('MB%d' % i, (object,), {})
        self.MS = type('MS%d' % i, (self.MB,), {})
        self.rep = lambda dumper, data, i=i: dumper.represent_scalar('!t%d' % i, 'rep%d' % i)
        self.mrep = lambda dumper, data, i=i: dumper.represent_scalar('!mt%d' % i, 'mrep%d' % i)
        self.Y = None


def norm(x):
    if isinstance(x, (list, tuple)):
        return [norm(y) for y in x]
    if isinstance(x, dict):
        return {str(k): norm(v) for k, v in x.items()}
    if isinstance(x, (str, int, float, bool, type(None))):
        return x
    return type(x).__name__ + ':' + repr(sorted(getattr(x, '__dict__', {}).items()))


def probe_load(cls, doc, compose=None):
    try:
        if compose == 'root':
            return yaml.compose(doc, Loader=cls).tag
        if compose == 'value':
            return yaml.compose(doc, Loader=cls).value[0][1].tag
        return norm(yaml.load(doc, Loader=cls))
    except yaml.YAMLError as e:
        return 'EXC:' + type(e).__name__
    except Exception as e:
        return 'NONYAML:' + type(e).__name__


def probe_dump(cls, obj):
    try:
        return yaml.dump(obj, Dumper=cls)
    except yaml.YAMLError as e:
        return 'EXC:' + type(e).__name__
    except Exception as e:
        return 'NONYAML:' + type(e).__name__


def run_history(root_name, hist):
    """Executed in the forked child.  hist = [(op, target_index, variant)].  Returns dict(result)."""
    is_loader = root_name in LOADER_ROOTS or root_name.endswith('Loader')
    R = getattr(yaml, root_name)
    A = type('A', (R,), {})
    B = type('B', (R,), {})
    AA = type('AA', (A,), {})
    lattice = [R, A, B, AA]
    names = {'R': R, 'A': A, 'B': B, 'AA': AA}
    ship = shipped()
    watched = dict(ship)
    watched.update({'lat:' + k: v for k, v in names.items()})
    lineage = {c: root_name for c in lattice}
    model = Model(list(watched.values()))
    slots = [Slot(i) for i in range(len(hist))]
    loaders = {n: c for n, c in watched.items() if n.endswith('Loader') or (n.startswith('lat:') and is_loader)}
    dumpers = {n: c for n, c in watched.items() if n.endswith('Dumper') or (n.startswith('lat:') and not is_loader)}
    problems = []
    # the shipped loader / dumper classes are siblings: none inherits from another, otherwise a registration aimed at one of
    # them (yaml.add_constructor(..., Loader=yaml.Loader), a YAMLObject bound to it) silently reaches the other
    fam = {n: c for n, c in ship.items() if n.endswith(('Loader', 'Dumper'))}
    for a, ca in fam.items():
        for b, cb in fam.items():
            if ca is not cb and issubclass(ca, cb):
                problems.append('shipped class %s inherits from shipped class %s: what is registered on %s alone takes effect for %s' % (a, b, b, a))
    if problems:
        return {'problems': problems[:4], 'steps': 0, 'probes': 0}
    d0 = compare(model, watched)
    if d0:
        return {'problems': ['model does not describe the initial state: ' + '; '.join(d0[:3])], 'steps': 0, 'probes': 0}
    # baselines (per shipped class and per slot) before anything is registered
    base = {}
    for s in slots:
        for n, c in loaders.items():
            base[(n, s.i, 'cons')] = probe_load(c, '%s x' % s.tag)
            base[(n, s.i, 'mcons')] = probe_load(c, '%ssuf x' % s.mprefix)
            base[(n, s.i, 'ires')] = probe_load(c, 'tok%d' % s.i, 'root')
            base[(n, s.i, 'pres')] = probe_load(c, 'pk%d: v' % s.i, 'value')
            base[(n, s.i, 'yobj')] = probe_load(c, '!y%d {a: 1}' % s.i)
        for n, c in dumpers.items():
            base[(n, s.i, 'rep')] = probe_dump(c, s.T())
            base[(n, s.i, 'mrep')] = probe_dump(c, s.MS())
            base[(n, s.i, 'ires')] = probe_dump(c, 'tok%d' % s.i)
    nprobes = 0
    applied = []      # (slot, kind, [(cls, attr, key)])
    last = None
    for step, (op, ti, variant) in enumerate(hist):
        s = slots[step]
        X = lattice[ti % len(lattice)]
        regs = []
        if op == 'again':
            # the same (key, function) pair as the previous registration, now on X: a write like any other (X gets its own table)
            if last is None:
                continue
            op, s = last
        try:
            if op == 'defsub':
                D = type('D%d' % step, (X,), {})
                lattice.append(D)
                watched['lat:D%d' % step] = D
                (loaders if is_loader else dumpers)['lat:D%d' % step] = D
                lineage[D] = root_name
            elif op == 'cons':
                X.add_constructor(s.tag, s.cons)
                model.add(X, 'yaml_constructors', s.tag, s.cons)
                regs.append(('cons', X))
            elif op == 'mcons':
                X.add_multi_constructor(s.mprefix, s.mcons)
                model.add(X, 'yaml_multi_constructors', s.mprefix, s.mcons)
                regs.append(('mcons', X))
            elif op == 'ires':
                first = ['t', 'z'] if variant % 2 == 0 else None
                X.add_implicit_resolver(s.rtag, s.rx, first)
                model.add(X, 'yaml_implicit_resolvers', s.rtag, s.rx, first)
                regs.append(('ires', X))
            elif op == 'pres':
                X.add_path_resolver(s.ptag, ['pk%d' % s.i], None)
                model.add(X, 'yaml_path_resolvers', ((None, 'pk%d' % s.i),), s.ptag)
                # key shape: (tuple(new_path), kind)
                t = model.own[(X, 'yaml_path_resolvers')]
                del t[((None, 'pk%d' % s.i),)]
                t[(((None, 'pk%d' % s.i),), None)] = s.ptag
                regs.append(('pres', X))
            elif op == 'rep':
                X.add_representer(s.T, s.rep)
                model.add(X, 'yaml_representers', s.T, s.rep)
                regs.append(('rep', X))
            elif op == 'mrep':
                X.add_multi_representer(s.MB, s.mrep)
                model.add(X, 'yaml_multi_representers', s.MB, s.mrep)
                regs.append(('mrep', X))
            elif op in ('yobj', 'yobj_sub'):
                if is_loader:
                    yl = [X, lattice[(ti + 1) % NCLS]] if variant % 2 else X
                    yd = yaml.Dumper
                else:
                    yl = []
                    yd = X
                s.Y = yaml.YAMLObjectMetaclass('Y%d' % s.i, (yaml.YAMLObject,), {'yaml_tag': '!y%d' % s.i, 'yaml_loader': yl, 'yaml_dumper': yd})
                for L in (yl if isinstance(yl, list) else [yl]):
                    model.add(L, 'yaml_constructors', s.Y.yaml_tag, s.Y.from_yaml)
                    regs.append(('yobj', L))
                model.add(yd, 'yaml_representers', s.Y, s.Y.to_yaml)
                regs.append(('yobj_rep', yd))
                if op == 'yobj_sub':
                    # a subclass that only inherits the tag registers nothing, wherever its yaml_loader / yaml_dumper point
                    other = lattice[(ti + 2) % NCLS]
                    body = {} if variant % 2 == 0 else ({'yaml_loader': other} if is_loader else {'yaml_dumper': other})
                    s.Ysub = yaml.YAMLObjectMetaclass('Ysub%d' % s.i, (s.Y,), body)
            elif op in ('mod_cons', 'mod_mcons', 'mod_ires'):
                targets = [X] if variant % 2 else [yaml.Loader, yaml.FullLoader, yaml.UnsafeLoader]
                kw = {'Loader': X} if variant % 2 else {}
                if op == 'mod_cons':
                    yaml.add_constructor(s.tag, s.cons, **kw)
                    for L in targets:
                        model.add(L, 'yaml_constructors', s.tag, s.cons)
                        regs.append(('cons', L))
                elif op == 'mod_mcons':
                    yaml.add_multi_constructor(s.mprefix, s.mcons, **kw)
                    for L in targets:
                        model.add(L, 'yaml_multi_constructors', s.mprefix, s.mcons)
                        regs.append(('mcons', L))
                else:
                    yaml.add_implicit_resolver(s.rtag, s.rx, ['t'], **kw)
                    for L in targets + [yaml.Dumper]:
                        model.add(L, 'yaml_implicit_resolvers', s.rtag, s.rx, ['t'])
                        regs.append(('ires', L))
            elif op in ('mod_rep', 'mod_mrep'):
                kw = {'Dumper': X} if variant % 2 else {}
                tgt = X if variant % 2 else yaml.Dumper
                if op == 'mod_rep':
                    yaml.add_representer(s.T, s.rep, **kw)
                    model.add(tgt, 'yaml_representers', s.T, s.rep)
                    regs.append(('rep', tgt))
                else:
                    yaml.add_multi_representer(s.MB, s.mrep, **kw)
                    model.add(tgt, 'yaml_multi_representers', s.MB, s.mrep)
                    regs.append(('mrep', tgt))
        except Exception as e:
            problems.append('step %d (%s on %s) raised %s: %s' % (step, op, X.__name__, type(e).__name__, str(e)[:100]))
            break
        applied.append((s, op, regs))
        if op in ('cons', 'mcons', 'rep', 'mrep'):
            last = (op, s)
        for d in compare(model, watched)[:6]:
            problems.append('after step %d (%s on %s): %s' % (step, op, X.__name__, d))
        # behavioural probes for every operation applied so far
        # ... and for the next two operations *before* they are applied: a dispatch memo filled by these probes
        # (a negative entry) must not survive the registration that follows
        upcoming = [(s3, None, None) for s3 in slots[step + 1:step + 3]]
        for s2, op2, regs2 in applied + upcoming:
            vis_l = lambda attr, key: {n for n, c in loaders.items() if (model.effective(c, attr) or {}).get(key) is not None}
            checks = []
            if regs2 is None:
                kinds = {'cons', 'mcons', 'ires', 'pres'} if is_loader else {'rep', 'mrep'}
                regs2 = [('none', type(None))]
            else:
                kinds = {k for k, _ in regs2}
            if 'cons' in kinds:
                vis = vis_l('yaml_constructors', s2.tag)
                checks += [(n, c, 'cons', probe_load(c, '%s x' % s2.tag), ['C', s2.i], n in vis) for n, c in loaders.items()]
            if 'mcons' in kinds:
                vis = vis_l('yaml_multi_constructors', s2.mprefix)
                checks += [(n, c, 'mcons', probe_load(c, '%ssuf x' % s2.mprefix), ['M', s2.i, 'suf'], n in vis) for n, c in loaders.items()]
            if 'yobj' in kinds:
                vis = vis_l('yaml_constructors', s2.Y.yaml_tag)
                checks += [(n, c, 'yobj', probe_load(c, '!y%d {a: 1}' % s2.i), "Y%d:[('a', 1)]" % s2.i, n in vis) for n, c in loaders.items()]
            if 'ires' in kinds:
                def has(c):
                    t = model.effective(c, 'yaml_implicit_resolvers') or {}
                    return any(tg == s2.rtag for lst in (t.get('t', []), t.get(None, [])) for tg, _ in lst)
                checks += [(n, c, 'ires', probe_load(c, 'tok%d' % s2.i, 'root'), s2.rtag, has(c)) for n, c in loaders.items()]
                for n, c in dumpers.items():
                    got = probe_dump(c, 'tok%d' % s2.i)
                    nprobes += 1
                    b = base.get((n, s2.i, 'ires'), base.get((lineage.get(c, n), s2.i, 'ires')))
                    if has(c):
                        if isinstance(got, str) and got.strip().replace('\n...', '') == 'tok%d' % s2.i:
                            problems.append('after step %d: dumper %s writes %r plain although an implicit resolver for it is visible' % (step, n, 'tok%d' % s2.i))
                    elif b is not None and got != b:
                        problems.append('after step %d: dumper %s output for %r changed (%r -> %r) although no resolver is visible to it' % (step, n, 'tok%d' % s2.i, b, got))
            if 'pres' in kinds:
                key = (((None, 'pk%d' % s2.i),), None)
                vis = {n for n, c in loaders.items() if key in (model.effective(c, 'yaml_path_resolvers') or {})}
                checks += [(n, c, 'pres', probe_load(c, 'pk%d: v' % s2.i, 'value'), s2.ptag, n in vis) for n, c in loaders.items()]
            for n, c, kind, got, sentinel, visible in checks:
                nprobes += 1
                b = base.get((n, s2.i, kind))
                if b is None:
                    b = base.get((lineage.get(c), s2.i, kind))
                if visible and got != sentinel:
                    problems.append('after step %d: %s probe through %s gave %r, the rule says the registration on %s is visible there (%r)' % (
                        step, kind, n, got, '/'.join(x.__name__ for _, x in regs2), sentinel))
                elif not visible and (got == sentinel or (b is not None and got != b)):
                    problems.append('after step %d: %s probe through %s gave %r (baseline %r): the registration on %s leaked' % (
                        step, kind, n, got, b, '/'.join(x.__name__ for _, x in regs2)))
            for kind, attr, keyobj, inst, text in (('rep', 'yaml_representers', s2.T, s2.T, '!t%d ' % s2.i),
                                                   ('mrep', 'yaml_multi_representers', s2.MB, s2.MS, '!mt%d ' % s2.i)):
                if kind in kinds:
                    for n, c in dumpers.items():
                        got = probe_dump(c, inst())
                        nprobes += 1
                        visible = keyobj in (model.effective(c, attr) or {})
                        b = base.get((n, s2.i, kind), base.get((lineage.get(c), s2.i, kind)))
                        hit = isinstance(got, str) and got.startswith(text)
                        if visible and not hit:
                            problems.append('after step %d: %s probe through %s gave %r, the registration should be visible' % (step, kind, n, got[:60]))
                        elif not visible and (hit or (b is not None and _stable(got) != _stable(b))):
                            problems.append('after step %d: %s probe through %s gave %r (baseline %r): the registration leaked' % (step, kind, n, got[:60], (b or '')[:60]))
            if 'yobj_rep' in kinds:
                for n, c in dumpers.items():
                    yo = s2.Y()
                    yo.a = 1
                    got = probe_dump(c, yo)
                    nprobes += 1
                    visible = s2.Y in (model.effective(c, 'yaml_representers') or {})
                    hit = isinstance(got, str) and got.startswith('!y%d' % s2.i)
                    if visible != hit:
                        problems.append('after step %d: YAMLObject dump through %s gave %r, rule says visible=%s' % (step, n, got[:60], visible))
        if problems:
            break
    return {'problems': problems[:8], 'steps': len(applied), 'probes': nprobes}


def _stable(s):
    # object reprs in python/object output carry no addresses; keep as is
    return s


def forked(root, hist):
    r, w = os.pipe()
    pid = os.fork()
    if pid == 0:
        try:
            os.close(r)
            try:
                res = run_history(root, hist)
            except BaseException as e:
                import traceback
                res = {'problems': [], 'harness_error': traceback.format_exc()[-1500:], 'steps': 0, 'probes': 0}
            os.write(w, json.dumps(res).encode())
        finally:
            os._exit(0)
    os.close(w)
    buf = b''
    while True:
        chunk = os.read(r, 65536)
        if not chunk:
            break
        buf += chunk
    os.close(r)
    os.waitpid(pid, 0)
    try:
        return json.loads(buf.decode())
    except ValueError:
        return {'problems': [], 'harness_error': 'child died: ' + buf.decode(errors='replace')[:300], 'steps': 0, 'probes': 0}


def yobj_capable(root):
    c = getattr(yaml, root)
    return hasattr(c, 'construct_yaml_object') or hasattr(c, 'represent_yaml_object')


def roots():
    return [(n, True) for n in yamlapi.loaders(LOADER_ROOTS)] + [(n, False) for n in yamlapi.loaders(DUMPER_ROOTS)]


def all_ops(is_loader, yobj_ok=True):
    ops = []
    for op in (LOADER_OPS if is_loader else DUMPER_OPS) + ['again']:
        if op in ('yobj', 'yobj_sub') and not yobj_ok:
            continue
        for t in range(NCLS):
            variants = (0, 1) if op in ('ires', 'yobj', 'yobj_sub') or op.startswith('mod_') else (0,)
            for v in variants:
                if op.startswith('mod_') and v == 0 and t != 0:
                    continue        # without Loader=/Dumper= the target is irrelevant
                ops.append((op, t, v))
    return ops


def plan(tier, seed):
    n = 14
    specs = [{'kind': 'exh', 'shard': i, 'of': n, 'maxlen': 2 if tier == 'quick' else 3, 'cext': 'plain'} for i in range(n)]
    for i in range(4 if tier == 'quick' else 14):
        specs.append({'kind': 'random', 'shard': i, 'n': 120 if tier == 'quick' else 1500, 'cext': 'plain'})
    return specs


def report(ctx, root, hist, res):
    ctx.stat('histories')
    ctx.stat('steps', res.get('steps', 0))
    ctx.stat('probes', res.get('probes', 0))
    if res.get('harness_error'):
        ctx.violation({'root': root, 'history': hist}, {'what': 'harness error inside the forked history', 'trace': res['harness_error']}, None)
    elif res['problems']:
        ctx.violation({'root': root, 'history': hist}, {'what': 'class registries disagree with the isolation rule', 'problems': res['problems']}, None)


def run(spec, ctx):
    if spec['kind'] == 'exh':
        k = 0
        for root, is_loader in roots():
            ops = all_ops(is_loader, yobj_capable(root))
            if spec['maxlen'] >= 3:
                # length 3 over a reduced set: one variant per op, targets R, A, AA
                ops3 = [o for o in ops if o[2] == (1 if o[0].startswith('mod_') else 0) and o[1] in (0, 1, 3)]
            for L in range(1, spec['maxlen'] + 1):
                src = ops if L <= 2 else ops3
                for hist in itertools.product(src, repeat=L):
                    if k % spec['of'] == spec['shard']:
                        hist = [list(h) for h in hist]
                        ctx.crumb({'root': root, 'history': hist})
                        ctx.case(core.h64(root, repr(hist)), any(h[0] != 'defsub' for h in hist), ['root:' + root, 'len%d' % L])
                        if k % 997 == 0:
                            ctx.sample({'root': root, 'history': hist})
                        report(ctx, root, hist, forked(root, hist))
                    k += 1
            # register on a class, re-register the identical pair on another class, register something else on the first:
            # the second step must have given its class a table of its own
            simple = ['cons', 'mcons'] if is_loader else ['rep', 'mrep']
            for k1 in simple:
                for k2 in simple:
                    for tb in range(NCLS):
                        for ts in range(NCLS):
                            if ts != tb:
                                if k % spec['of'] == spec['shard']:
                                    hist = [[k1, tb, 0], ['again', ts, 0], [k2, tb, 0]]
                                    ctx.crumb({'root': root, 'history': hist})
                                    ctx.case(core.h64(root, repr(hist)), True, ['root:' + root, 'again'])
                                    report(ctx, root, hist, forked(root, hist))
                                k += 1
        ctx.stat('exhaustive_shards_done')
    else:
        r = random.Random(core.h64('C10', spec['seed'], spec['shard']))
        rs = roots()
        for i in range(spec['n']):
            root, is_loader = r.choice(rs)
            ops = all_ops(is_loader, yobj_capable(root))
            hist = [list(r.choice(ops)) for _ in range(r.randint(3, 8))]
            ctx.crumb({'root': root, 'history': hist})
            ctx.case(core.h64(root, repr(hist)), True, ['root:' + root, 'random'])
            if i < 2:
                ctx.sample({'root': root, 'history': hist})
            report(ctx, root, hist, forked(root, hist))


def replay(case, ctx):
    ctx.case(core.h64(repr(case)), True)
    report(ctx, case['root'], [tuple(h) for h in case['history']], forked(case['root'], [tuple(h) for h in case['history']]))


def summarize(agg, tier):
    st = agg['stats']
    out = {'exhaustive': False, 'exhaustive_slice': 'all histories of length <= %d per root over the operation x target x variant set' % (2 if tier == 'quick' else 3)}
    if not st.get('probes'):
        out['_inconclusive'] = 'no behavioural probe was executed'
    return out
