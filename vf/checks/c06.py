"""C06 - the LibYAML back-end is a drop-in replacement: same events, nodes, objects and error classes on
portable-subset documents and on everything the dumpers write.  Three references: the Python pipeline,
the LibYAML pipeline, and the events G-doc knows by construction."""
import random

import yaml

from .. import core, yamlapi, sigs
from ..gen import gdoc, values as V, options as O, boundary, strings as S, events as EV, shapes as SH
from ..mon import streams
from ..ref import bisim

ID = 'C06'
LEVEL = 'exploration'
LEVEL_TEXT = ('Exploration: documents rendered from an abstract model into the portable YAML 1.1 subset (block/flow collections, '
              'five scalar styles with indentation and chomping indicators, comments, anchors/aliases incl. recursive, four tag '
              'spellings, %YAML/%TAG, multi-document streams, LF/CRLF/CR/NEL breaks) and the output of both dumpers and both '
              'emitters under generated options are read by both back-ends; a differential monitor compares event streams '
              '(against each other and against the events known by construction), composed node graphs, and the objects built '
              'by the Base/Safe/Full/Unsafe loader pairs (ref.bisim signatures, documents delivered before an error, exception '
              'class); documents exactly on the simple-key length limit (every key spelling, 1019-1029 and 126-129 characters) and short-read '
              'stream deliveries are included; the four malformed classes named by the property are planted at model level and must give the same, '
              'expected, error class. Thorough repeats the C side under the ASan+UBSan glue.' + " Every unusual character is also placed at every lexically decisive position (line start, key start, value start and end, alone, flow and nested block context) of both dumpers' output under every style.")
LEVEL_NOTE = ('Held on the documents generated. The portable subset is the one listed in DESIGN.md (C06); a divergence inside it '
              'is reported, never waved through.')
TECHNIQUE = 'runtime monitoring: three-way differential oracle (Python back-end, LibYAML back-end, events known by construction) over generated documents and dumper outputs'
DESIGN_REF = 'DESIGN.md section 3, C06'
RULE = ('a case is one text (G-doc stream, planted-error stream, dumper output of a G-val value, or emitter output of a G-doc '
        'event stream, each under a random option point); every case is parsed, composed and loaded by 4 loader pairs in both '
        'back-ends; non-trivial = the text has at least one collection or a non-plain scalar; distinct by text hash')
ASSUMPTIONS = ['portable subset only (exclusions listed in DESIGN.md C06)', 'C-side results describe yaml/_yaml.c + system libyaml 0.2.5',
               'marks are not compared across back-ends (libyaml counts a line at EOF)']
PAIRS = [('BaseLoader', 'CBaseLoader'), ('SafeLoader', 'CSafeLoader'), ('FullLoader', 'CFullLoader'), ('UnsafeLoader', 'CUnsafeLoader')]


def plan(tier, seed):
    q = tier == 'quick'
    specs = []
    for i in range(6 if q else 12):
        specs.append({'kind': 'gdoc', 'shard': i, 'n': 1500 if q else 30000, 'cext': 'plain'})
    for i in range(4 if q else 8):
        specs.append({'kind': 'dump', 'shard': i, 'n': 1200 if q else 25000, 'cext': 'plain'})
    for i in range(3 if q else 6):
        specs.append({'kind': 'emit', 'shard': i, 'n': 1000 if q else 20000, 'cext': 'plain'})
    specs.append({'kind': 'errors', 'shard': 0, 'n': 1500 if q else 20000, 'cext': 'plain'})
    specs.append({'kind': 'limits', 'shard': 0, 'n': 1, 'cext': 'plain'})
    for i in range(2):
        specs.append({'kind': 'dumppos', 'shard': i, 'of': 2, 'n': 1, 'cext': 'plain'})
    for i in range(2 if q else 4):
        specs.append({'kind': 'emit_ev', 'shard': i, 'n': 1500 if q else 25000, 'cext': 'plain'})
    for i in range(2 if q else 4):
        specs.append({'kind': 'dump_obj', 'shard': i, 'n': 700 if q else 12000, 'cext': 'plain'})
    if not q:
        for i in range(2):
            specs.append({'kind': 'gdoc', 'shard': 100 + i, 'n': 6000, 'cext': 'asan'})
            specs.append({'kind': 'dump', 'shard': 100 + i, 'n': 4000, 'cext': 'asan'})
    return specs


class StreamSource:
    """A fresh short-read stream over the same data for every read (compare() reads a case many times)."""

    def __init__(self, data, schedule):
        self.data, self.schedule = data, schedule

    def open(self):
        return streams.ReadStream(self.data, self.schedule)

    def __len__(self):
        return len(self.data)

    def __getitem__(self, i):
        return self.data[i]

    def startswith(self, x):
        return self.data.startswith(x) if isinstance(self.data, bytes) else False

    def decode(self, *a):
        return self.data.decode(*a) if isinstance(self.data, bytes) else self.data


def src_of(text):
    return text.open() if isinstance(text, StreamSource) else text


def events_of(text, lname):
    try:
        return ('ok', [sigs.ev_sig(e) for e in yaml.parse(src_of(text), Loader=getattr(yaml, lname))])
    except yaml.YAMLError as e:
        return ('err', type(e).__name__)


def nodes_of(text, lname):
    out = []
    try:
        for n in yaml.compose_all(src_of(text), Loader=getattr(yaml, lname)):
            out.append(sigs.node_sig(n))
        return ('ok', out)
    except yaml.YAMLError as e:
        return ('err', type(e).__name__, out)


def objects_of(text, lname):
    out = []
    try:
        for d in yaml.load_all(src_of(text), Loader=getattr(yaml, lname)):
            out.append(bisim.sig(d))
        return ('ok', out)
    except yaml.YAMLError as e:
        return ('err', type(e).__name__, out)
    except RecursionError:
        return ('recursion', None, out)


def compare(text, ctx, case, expected=None, want_ok=False):
    """All cross-back-end comparisons for one text.  expected: event tuples known by construction."""
    bad = []
    pe, ce = events_of(text, 'Loader'), events_of(text, 'CLoader')
    ctx.stat('event_comparisons')
    if pe != ce:
        d = first_diff(pe, ce)
        bad.append({'what': 'events differ between back-ends', 'diff': d})
    if expected is not None:
        ctx.stat('construction_comparisons')
        for name in ('Loader', 'CLoader'):
            try:
                got = [gdoc.ev_tuple(e) for e in yaml.parse(src_of(text), Loader=getattr(yaml, name))]
            except yaml.YAMLError as e:
                bad.append({'what': 'valid-by-construction document rejected', 'loader': name, 'exc': yamlapi.exc_sig(e)})
                continue
            if got != expected:
                d = [(a, b) for a, b in zip(got, expected) if a != b][:1] or [('len', len(got), len(expected))]
                bad.append({'what': 'events differ from the events known by construction', 'loader': name, 'diff': repr(d)[:400]})
    if want_ok and pe[0] != 'ok':
        bad.append({'what': 'dumper output rejected by the Python parser', 'exc': pe[1]})
    pn, cn = nodes_of(text, 'Loader'), nodes_of(text, 'CLoader')
    ctx.stat('node_comparisons')
    if pn != cn:
        bad.append({'what': 'node graphs differ between back-ends', 'diff': first_diff(pn, cn)})
    for pl, cl in PAIRS:
        po, co = objects_of(text, pl), objects_of(text, cl)
        ctx.stat('object_comparisons')
        ctx.stat('load_outcome:%s:%s' % (pl, po[0] if po[0] != 'err' else po[1]))
        if po != co:
            bad.append({'what': 'constructed objects differ between back-ends', 'pair': [pl, cl], 'diff': first_diff(po, co)})
    mech = None
    if bad:
        t = text.data if isinstance(text, StreamSource) else text
        if isinstance(t, bytes):
            try:
                t = t.decode('utf-16' if t.startswith((b'\xff\xfe', b'\xfe\xff')) else 'utf-8')
            except UnicodeDecodeError:
                t = ''
        # F14: libyaml skips the token after an empty single-pair key in a flow sequence.  Only differences that involve
        # the C side can be explained by it (never a Python-side disagreement with the events known by construction)
        if sigs.f14_text(t) and all(b.get('loader') != 'Loader' and 'rejected by the Python parser' not in b['what'] for b in bad):
            mech = 'F14'
        # F28: libyaml's parser honours the non-specific tag '!' only on scalar tokens: for a collection or an empty node that
        # carries it, the 'implicit' flag of the event differs (and an empty '!' scalar is then resolved to '' instead of null).
        # Both composers and constructors are the same code, so with otherwise identical events nothing else can be behind
        # node / object differences of such a text
        if pe[0] == ce[0] == 'ok' and len(pe[1]) == len(ce[1]) and all(b['what'] in ('events differ between back-ends', 'node graphs differ between back-ends',
                                                                                   'constructed objects differ between back-ends') for b in bad):
            def neutral(evs):
                out = []
                for e in evs:
                    if e[0] in ('MappingStart', 'SequenceStart') and e[2] == '!':
                        e = (e[0], e[1], e[2], None) + tuple(e[4:])
                    elif e[0] == 'Scalar' and e[2] == '!' and e[4] == '':
                        e = (e[0], e[1], e[2], None) + tuple(e[4:])
                    out.append(e)
                return out
            if pe[1] != ce[1] and neutral(pe[1]) == neutral(ce[1]):
                mech = 'F28'
    for b in bad:
        tt = text.data if isinstance(text, StreamSource) else text
        b['text'] = tt if len(tt) < 3000 else tt[:3000]
        if isinstance(text, StreamSource):
            b['stream_schedule'] = text.schedule
        ctx.violation(case, b, mech)
    return not bad


def compare_objects(text, ctx, case):
    """Events and nodes as usual; objects by graph comparison (signatures of arbitrary instances would carry addresses)."""
    pe, ce = events_of(text, 'Loader'), events_of(text, 'CLoader')
    ctx.stat('event_comparisons')
    if pe != ce:
        ctx.violation(case, {'what': 'events differ between back-ends', 'diff': first_diff(pe, ce), 'text': text[:1500]}, None)
        return
    for pl, cl in PAIRS:
        res = []
        for ln in (pl, cl):
            try:
                res.append(('ok', yaml.load(text, Loader=getattr(yaml, ln))))
            except yaml.YAMLError as e:
                res.append(('err', type(e).__name__))
            except RecursionError:
                res.append(('err', 'RecursionError'))
            except Exception as e:
                res.append(('err', 'nonyaml:' + type(e).__name__))
        ctx.stat('object_comparisons')
        ctx.stat('load_outcome:%s:%s' % (pl, res[0][0] if res[0][0] != 'err' else res[0][1]))
        if res[0][0] != res[1][0] or (res[0][0] == 'err' and res[0][1] != res[1][1]):
            ctx.violation(case, {'what': 'constructed objects differ between back-ends', 'pair': [pl, cl], 'py': repr(res[0])[:200], 'c': repr(res[1])[:200], 'text': text[:1500]}, None)
        elif res[0][0] == 'ok':
            m = bisim.diff(res[0][1], res[1][1], track_tuples=True)
            if m:
                ctx.violation(case, {'what': 'constructed objects differ between back-ends', 'pair': [pl, cl], 'diff': m[:300], 'text': text[:1500]}, None)


def first_diff(a, b):
    if a[0] != b[0] or a[0] != 'ok':
        return repr((a[:2], b[:2]))[:500]
    la, lb = a[1], b[1]
    for i, (x, y) in enumerate(zip(la, lb)):
        if x != y:
            return repr({'index': i, 'py': x, 'c': y})[:600]
    return repr({'len_py': len(la), 'len_c': len(lb)})


def nontrivial(text):
    t = text if isinstance(text, str) else text.decode('utf-8', 'replace') if not text.startswith((b'\xff\xfe', b'\xfe\xff')) else text.decode('utf-16')
    return any(c in t for c in '[{-:"\'|>')


# ---------------------------------------------------------------------------------------------
def plant_error(r, docs):
    """Model-level mutation producing one of the four malformed classes.  Returns (kind, expected exception class, api)."""
    kind = r.choice(['undefined_alias', 'duplicate_anchor', 'unknown_tag', 'second_document'])
    d = docs[0]
    nodes = []

    def walk(n):
        if isinstance(n, gdoc.A):
            return
        nodes.append(n)
        if isinstance(n, gdoc.Q):
            for i in n.items:
                walk(i)
        elif isinstance(n, gdoc.M):
            for k, v in n.pairs:
                walk(k)
                walk(v)
    walk(d.root)
    if kind == 'undefined_alias':
        holder = [n for n in nodes if isinstance(n, gdoc.Q)]
        if not holder:
            d.root = gdoc.Q([d.root], False)
            holder = [d.root]
        r.choice(holder).items.append(gdoc.A('undefined' + str(r.randint(0, 9))))
        return kind, 'ComposerError'
    if kind == 'duplicate_anchor':
        if len(nodes) < 2:
            d.root = gdoc.Q([d.root, gdoc.S('x', 'plain')], False)
            nodes = [d.root] + d.root.items
        a, b = r.sample(nodes, 2)
        name = a.anchor or 'dup'
        a.anchor = b.anchor = name
        a.sp = b.sp = False          # a brace-less single-pair mapping cannot carry properties: write it with braces
        return kind, 'ComposerError'
    if kind == 'unknown_tag':
        n = r.choice(nodes)
        n.sp = False
        n.tag = r.choice(['!unknown', 'tag:example.org,2011:zzz', gdoc.CORE + 'nosuch', gdoc.CORE + 'python/nosuch'])
        return kind, 'ConstructorError'
    return kind, 'ComposerError'


def error_case(r, ctx, i):
    g = gdoc.Gen(r, tags=False, p_alias=0.05, empty_keys=False)
    docs = g.stream(ndocs=1)
    kind, want = plant_error(r, docs)
    if kind == 'second_document':
        docs.append(g.document())
    br = r.choice(['\n', '\n', '\r\n'])
    text, _ = gdoc.Render(r, br).stream(docs)
    case = {'kind': 'errors', 'planted': kind, 'text': text}
    ctx.crumb(case)
    ctx.case(core.h64(text), True, ['planted:' + kind])
    got = {}
    for pl, cl in PAIRS[1:2] + PAIRS[3:4] + ([PAIRS[0]] if kind != 'unknown_tag' else []):
        for name in (pl, cl):
            try:
                if kind == 'second_document':
                    yaml.load(text, Loader=getattr(yaml, name))
                else:
                    list(yaml.load_all(text, Loader=getattr(yaml, name)))
                got[name] = 'ok'
            except yaml.YAMLError as e:
                got[name] = type(e).__name__
            except RecursionError:
                got[name] = 'RecursionError'
    if kind == 'second_document':
        for name in ('Loader', 'CLoader'):
            try:
                yaml.compose(text, Loader=getattr(yaml, name))
                got['compose:' + name] = 'ok'
            except yaml.YAMLError as e:
                got['compose:' + name] = type(e).__name__
    ctx.stat('error_class_probes', len(got))
    # a planted error may be shadowed by an earlier legitimate one of another class in the same stream
    # (e.g. an unhashable key before the unknown tag): the verdict is equality across back-ends + the
    # expected class whenever the Python side reports the planted class at all
    for k in list(got):
        if k.startswith('C') or k.startswith('compose:C'):
            p = k[1:] if k.startswith('C') else 'compose:' + k[len('compose:C'):]
            if got[k] != got.get(p):
                ctx.violation(case, {'what': 'error class differs between back-ends', 'py': got.get(p), 'c': got[k], 'loader': k, 'text': text[:2000]}, None)
    vals = set(got.values())
    if 'ok' in vals:
        ctx.violation(case, {'what': 'planted malformed input accepted', 'outcomes': got, 'text': text[:2000]}, None)
    elif want in vals:
        ctx.stat('planted_class_observed:' + kind)
    else:
        ctx.stat('planted_class_shadowed:' + kind)


def run(spec, ctx):
    if not yamlapi.HAVE_C:
        ctx.stat('no_c_extension')
        return
    r = random.Random(core.h64('C06', spec['seed'], spec['kind'], spec['shard']))
    k = spec['kind']
    for i in range(spec['n']):
        if not ctx.time_left():
            break
        if k == 'gdoc':
            text, exp, docs, classes, ends = gdoc.gen_stream(r)
            case = {'kind': 'gdoc', 'text': text}
            ctx.crumb(case)
            ctx.case(core.h64(text), nontrivial(text), sorted(classes))
            if i < 2:
                ctx.sample(case)
            form = r.random()
            src = text
            if form < 0.15:
                src = text.encode('utf-8')
            elif form < 0.25:
                src = text.encode('utf-16')
            elif form < 0.4:
                # the same characters through a short-read stream (text or UTF-8 bytes): every reader sees them in pieces
                sched = r.choice([[1], [7], [3, 1], [64], [5, 4096]])
                data = text if r.random() < 0.5 else text.encode('utf-8')
                src = StreamSource(data, sched)
                ctx.stat('stream_deliveries')
            compare(src, ctx, case, expected=exp)
        elif k == 'dump':
            vs, classes = V.gen_spec(r)
            opts = O.gen(r)
            dname = r.choice(['SafeDumper', 'CSafeDumper'])
            case = {'kind': 'dump', 'spec': vs, 'opts': O.jsonable(opts), 'D': dname}
            ctx.crumb(case)
            try:
                text = yaml.dump(V.build(vs), Dumper=getattr(yaml, dname), **opts)
            except yaml.YAMLError:
                ctx.stat('dump_rejected')
                continue
            ctx.case(core.h64(text), nontrivial(text), ['dump:' + dname] + sorted(classes))
            if i < 2:
                ctx.sample({'kind': 'dump', 'text': text if isinstance(text, str) else repr(text)})
            compare(text, ctx, case, want_ok=True)
        elif k == 'emit':
            text0, exp, docs, classes, ends = gdoc.gen_stream(r)
            opts = O.gen(r, axes=('canonical', 'indent', 'width', 'allow_unicode', 'line_break'))
            dname = r.choice(['Dumper', 'CDumper'])
            case = {'kind': 'emit', 'source': text0, 'opts': O.jsonable(opts), 'D': dname}
            ctx.crumb(case)
            try:
                text = yaml.emit(yaml.parse(text0, Loader=yaml.Loader), Dumper=getattr(yaml, dname), **opts)
            except yaml.YAMLError:
                ctx.stat('emit_rejected')
                continue
            ctx.case(core.h64(text), nontrivial(text), ['emit:' + dname])
            if i < 2:
                ctx.sample({'kind': 'emit', 'text': text})
            compare(text, ctx, case, want_ok=True)
        elif k == 'dump_obj':
            # what the full dumpers write for Python objects (python/* tags of every form): the Base, Safe, Full and Unsafe
            # pairs must each treat it alike - build the same objects or refuse with the same error class
            gs, classes = SH.gen_spec(r, cycles=True)
            opts = O.gen(r, axes=('default_flow_style', 'canonical', 'indent', 'width', 'allow_unicode', 'default_style'))
            dname = r.choice(['Dumper', 'CDumper'])
            case = {'kind': 'dump_obj', 'spec': gs, 'opts': O.jsonable(opts), 'D': dname}
            ctx.crumb(case)
            try:
                text = yaml.dump(SH.build(gs), Dumper=getattr(yaml, dname), **opts)
            except (yaml.YAMLError, RecursionError):
                ctx.stat('dump_obj_rejected')
                continue
            ctx.case(core.h64(text), True, ['dump_obj:' + dname] + sorted(classes)[:6])
            compare_objects(text, ctx, case)
        elif k == 'emit_ev':
            # what the emitters write for arbitrary well-formed event streams (C05's generator: every tag spelling incl.
            # non-ASCII tags and prefixes, anchors, styles, per-document directives) must be read alike by both back-ends
            evs = EV.Gen(r, set()).stream()
            if any(e[0] in ('SC', 'QS', 'MS') and e[2] and any(c in e[2] for c in ',[]{}') for e in evs) or \
               any(e[0] == 'DS' and e[3] and any(c in v for v in e[3].values() for c in ',[]{}') for e in evs):
                ctx.stat('emit_ev_skipped_flow_indicator_in_tag')       # known finding F16 (C05 / C12)
                continue
            opts = EV.gen_opts(r)
            dname = r.choice(['Dumper', 'CDumper'])
            case = {'kind': 'emit_ev', 'spec': evs, 'opts': opts, 'D': dname}
            ctx.crumb(case)
            try:
                text = yaml.emit(EV.build(evs), Dumper=getattr(yaml, dname), **opts)
            except Exception:
                ctx.stat('emit_ev_rejected')
                continue
            ctx.case(core.h64(text), nontrivial(text if isinstance(text, str) else repr(text)), ['emit_ev:' + dname])
            compare(text, ctx, case)
        elif k == 'errors':
            error_case(r, ctx, i)
        elif k == 'dumppos':
            for case in pos_cases(spec['shard'], spec['of']):
                ctx.crumb(case)
                try:
                    text = yaml.dump(pos_value(case['ch'], case['shape']), Dumper=getattr(yaml, case['D']), **case['opts'])
                except yaml.YAMLError:
                    ctx.stat('dump_rejected')
                    continue
                ctx.case(core.h64(text), True, ['dumppos:' + case['D'], 'shape%d' % case['shape']])
                compare(text, ctx, case, want_ok=True)
            ctx.sample({'class': 'unusual character at every lexically decisive position of dumper output', 'chars': len(S.ODD) + len(S.PYSPACE) + 22, 'shapes': POS_SHAPES})
        elif k == 'limits':
            # documents exactly on the simple-key length limit, in every key spelling: both back-ends must agree on either side of it
            for text, label in boundary.simple_key_docs():
                case = {'kind': 'gdoc', 'text': text, 'label': label}
                ctx.crumb({'kind': 'limits', 'label': label})
                ctx.case(core.h64(text), True, ['limit:' + label.split(':')[0]])
                compare(text, ctx, case)
            ctx.sample({'class': 'simple-key length limits', 'lengths': '1019..1029, 126..129'})


POS_SHAPES = 9


def pos_value(ch, shape):
    """An unusual character at every position of a dumper's output where a lexer decides something: start of a line
    (first / later key, sequence item), start and end of a value, alone, inside flow collections, in a nested block."""
    return [{'a': 1, ch + 'b': 2, 'c': ch}, [ch + 'x', 'y' + ch, ch], {'k': {ch + 'n': [ch + 'i', {'z' + ch: ch + 'v'}]}}, ch + 'root', {ch: ch},
            ['p', [ch + 'q']], {'a': 'l1\n' + ch + 'l2\n', 'b': ch + ' s'}, [{ch + 'k': 1}, {'k2': ch + ch}], {'a': 1, 'b' + ch + 'c': ch + 'x' + ch}][shape]


def pos_cases(shard, of):
    k = 0
    for ch in S.ODD + S.PYSPACE + ['-', '?', ':', '#', '%', '!', '&', '*', '|', '>', "'", '"', '@', '`', ',', '[', '{', ' ', '...', '---', '<<', '=']:
        for shape in range(POS_SHAPES):
            for au in (None, True):
                for style in (None, '|', '>', "'", '"'):
                    for flow in (None, True, False):
                        for dname in ('SafeDumper', 'CSafeDumper'):
                            k += 1
                            if k % of == shard and (flow is None or style is None):
                                opts = {}
                                if au is not None:
                                    opts['allow_unicode'] = au
                                if style is not None:
                                    opts['default_style'] = style
                                if flow is not None:
                                    opts['default_flow_style'] = flow
                                yield {'kind': 'dumppos', 'ch': ch, 'shape': shape, 'opts': opts, 'D': dname}


def replay(case, ctx):
    ctx.case(core.h64(repr(case)), True)
    k = case.get('kind')
    if k == 'dump_obj':
        compare_objects(yaml.dump(SH.build(case['spec']), Dumper=getattr(yaml, case['D']), **O.unjson(case['opts'])), ctx, case)
    elif k == 'emit_ev':
        compare(yaml.emit(EV.build(case['spec']), Dumper=getattr(yaml, case['D']), **case['opts']), ctx, case)
    elif k == 'dumppos':
        text = yaml.dump(pos_value(case['ch'], case['shape']), Dumper=getattr(yaml, case['D']), **case['opts'])
        compare(text, ctx, case, want_ok=True)
    if k == 'gdoc':
        compare(case['text'], ctx, case)
    elif k == 'dump':
        text = yaml.dump(V.build(case['spec']), Dumper=getattr(yaml, case['D']), **O.unjson(case['opts']))
        compare(text, ctx, case, want_ok=True)
    elif k == 'emit':
        text = yaml.emit(yaml.parse(case['source'], Loader=yaml.Loader), Dumper=getattr(yaml, case['D']), **O.unjson(case['opts']))
        compare(text, ctx, case, want_ok=True)
    elif k == 'errors':
        compare(case['text'], ctx, case)


def summarize(agg, tier):
    st = agg['stats']
    out = {'loader_pairs': PAIRS,
           'planted_error_classes_observed': {k.split(':', 1)[1]: v for k, v in st.items() if k.startswith('planted_class_observed:')}}
    if st.get('no_c_extension'):
        out['_inconclusive'] = 'LibYAML extension not available: nothing to compare'
    elif not st.get('event_comparisons') or not st.get('object_comparisons'):
        out['_inconclusive'] = 'the differential monitor made no comparison'
    return out
