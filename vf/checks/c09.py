"""C09 - tokens and events are grammatical and their positions are true (marks recounted from the text;
parser driven by a stub token source against an independent grammar recogniser)."""
import itertools
import random

import yaml
from yaml.tokens import *      # noqa: F401,F403  (token classes for the stub)
from yaml import tokens as T

from .. import core, yamlapi, sigs
from ..gen import gdoc, corpus, strings as S, boundary
from ..ref import tokgrammar, evgrammar

ID = 'C09'
LEVEL = 'exploration'
LEVEL_TEXT = ('Exploration with exhaustive slices: every generated input (mutated corpus, G-doc documents with LF/CR/CRLF/NEL/LS/PS '
              'breaks and BOMs, all strings over a 20-symbol indicator alphabet up to length 4 (quick) / 5 (thorough)) is scanned and '
              'parsed by both back-ends under a mark monitor: 0 <= start <= end <= len, no mark before the previous one, line and '
              'column recounted from the text (pure-Python pipeline exactly; LibYAML range/order only), text[start:end] equal to the '
              'value of single-line plain scalars, anchors and aliases, the same for the marks carried by errors; token and event '
              'sequences of inputs that parse are checked by independent recognisers of the documented grammars. The parser alone is '
              'driven by a stub token source over all token-kind sequences up to length 4 (quick) / 5 (thorough) plus random longer '
              'ones: it must accept exactly what the grammar recogniser accepts, produce grammatical events, and reject with ParserError.')
LEVEL_NOTE = ('Held on the inputs generated. The token grammar is the one printed in parser.py with the tightening the property names '
              '(a block-mapping VALUE needs a KEY); semantic directive checks are not grammar.')
TECHNIQUE = 'runtime monitoring: mark recount monitor + independent grammar recognisers over scanner/parser output, stub-driven parser enumeration'
DESIGN_REF = 'DESIGN.md section 3, C09'
RULE = ('a case is one input text (both back-ends, scan + parse) or one token-kind sequence fed to the Parser; non-trivial = at least '
        'one token beyond STREAM-START/END was produced, or the sequence has at least one token; distinct by input hash')
ASSUMPTIONS = ['LibYAML marks are checked for range and order only (libyaml counts a line at EOF and does not count a BOM)']
EXH_ALPHA = list('-?:,[]{}#&*!|>\'"%') + [' ', '\n', 'a']
NEL, LS, PS, BOM = chr(0x85), chr(0x2028), chr(0x2029), chr(0xFEFF)
BREAKS = '\n' + NEL + LS + PS


def plan(tier, seed):
    q = tier == 'quick'
    specs = []
    for i in range(6 if q else 12):
        specs.append({'kind': 'inputs', 'shard': i, 'n': 4000 if q else 80000, 'cext': 'plain'})
    nex = 4 if q else 16
    for i in range(nex):
        specs.append({'kind': 'exh', 'shard': i, 'of': nex, 'maxlen': 4 if q else 5, 'cext': 'plain'})
    nst = 4 if q else 12
    for i in range(nst):
        specs.append({'kind': 'stub', 'shard': i, 'of': nst, 'maxlen': 4 if q else 5, 'random': 3000 if q else 60000})
    return specs


# ---------------------------------------------------------------------------------------------
class Recount:
    """line/column of every index of a text, by the counting rule the property states."""

    def __init__(self, text):
        n = len(text)
        self.n = n
        line = col = 0
        self.line = [0] * (n + 1)
        self.col = [0] * (n + 1)
        for i, ch in enumerate(text):
            self.line[i], self.col[i] = line, col
            if ch in BREAKS or (ch == '\r' and text[i + 1:i + 2] != '\n'):
                line += 1
                col = 0
            elif ch != BOM:
                col += 1
        self.line[n], self.col[n] = line, col


def mark_problem(m, rc, exact):
    if m is None:
        return None
    if not (0 <= m.index <= rc.n):
        return 'index %d outside [0, %d]' % (m.index, rc.n)
    if exact:
        if m.line != rc.line[m.index] or m.column != rc.col[m.index]:
            return 'line/column (%d, %d) at index %d, the text says (%d, %d)' % (m.line, m.column, m.index, rc.line[m.index], rc.col[m.index])
    elif m.line < 0 or m.column < 0:
        return 'negative line/column'
    return None


def check_items(items, text, rc, exact, what, slices):
    """Range, order, recount, slice.  Returns a problem string or None."""
    prev_end = 0
    prev_start = 0
    for k, x in enumerate(items):
        s, e = x.start_mark, x.end_mark
        for m in (s, e):
            p = mark_problem(m, rc, exact)
            if p:
                return '%s #%d (%s): %s' % (what, k, type(x).__name__, p)
        if s.index > e.index:
            return '%s #%d (%s): start %d after end %d' % (what, k, type(x).__name__, s.index, e.index)
        if s.index < prev_start or e.index < prev_end:
            return '%s #%d (%s): marks move backwards (%d..%d after %d..%d)' % (what, k, type(x).__name__, s.index, e.index, prev_start, prev_end)
        prev_start, prev_end = s.index, e.index
        if slices:
            piece = text[s.index:e.index]
            if isinstance(x, T.ScalarToken) and x.plain and not any(c in piece for c in BREAKS + '\r'):
                if piece != x.value:
                    return 'plain scalar token #%d: text[%d:%d] = %r but value = %r' % (k, s.index, e.index, piece, x.value)
            elif isinstance(x, T.AnchorToken) and piece != '&' + x.value:
                return 'anchor token #%d: text[%d:%d] = %r but value = %r' % (k, s.index, e.index, piece, x.value)
            elif isinstance(x, (T.AliasToken, yaml.AliasEvent)) and piece != '*' + (x.value if isinstance(x, T.AliasToken) else x.anchor):
                return 'alias #%d: text[%d:%d] = %r' % (k, s.index, e.index, piece)
    return None


def collect(fn, text, L):
    out = []
    try:
        for x in fn(text, Loader=L):
            out.append(x)
        return out, None
    except yaml.YAMLError as e:
        return out, e
    except RecursionError:
        return out, 'recursion'


def check_text(text, ctx, cls):
    """All C09 clauses for one input (a str)."""
    case = {'text': text}
    ctx.crumb(case)
    rc = Recount(text)
    produced = 0
    for bname, L in (('py', yaml.Loader),) + ((('c', yaml.CLoader),) if yamlapi.HAVE_C else ()):
        exact = bname == 'py'
        toks, terr = collect(yaml.scan, text, L)
        evs, perr = collect(yaml.parse, text, L)
        if terr == 'recursion' or perr == 'recursion':
            ctx.stat('recursion_out_of_scope')
            continue
        ctx.stat('scans')
        produced = max(produced, len(toks))
        bad = check_items(toks, text, rc, exact, 'token', slices=exact) or check_items(evs, text, rc, exact, 'event', slices=exact)
        if not bad:
            for err in (terr, perr):
                if err is not None:
                    for a in ('context_mark', 'problem_mark'):
                        p = mark_problem(getattr(err, a, None), rc, exact)
                        if p:
                            bad = 'error %s (%s): %s' % (a, type(err).__name__, p)
                    ctx.stat('error_marks_checked')
        if not bad and terr is None and len(text) < 400:
            # the token interface is get_token() as well as check/peek + get: a consumer that only ever calls get_token()
            # must be handed the same tokens in the same order
            try:
                ld = L(text)
                drained = []
                while True:
                    t = ld.get_token()
                    if t is None:
                        break
                    drained.append((type(t).__name__, t.start_mark.index, t.end_mark.index))
                    if isinstance(t, yaml.StreamEndToken) or len(drained) > len(toks) + 5:
                        break
                ld.dispose()
                ctx.stat('get_token_drains')
                if drained != [(type(t).__name__, t.start_mark.index, t.end_mark.index) for t in toks]:
                    bad = 'tokens handed out by get_token() alone differ from the tokens of scan(): %r' % (drained[:12],)
            except yaml.YAMLError as e:
                bad = 'get_token() alone raises %s on an input that scan() accepts' % type(e).__name__
        if not bad and terr is None:
            kinds = [type(t).__name__ for t in toks]
            if kinds.count('StreamStartToken') != 1 or kinds[0] != 'StreamStartToken' or kinds.count('StreamEndToken') != 1 or kinds[-1] != 'StreamEndToken':
                bad = 'scanned input does not have exactly one STREAM-START first and one STREAM-END last: %s' % kinds[:6]
        if not bad and perr is None and terr is None:
            ctx.stat('grammar_checks')
            if not tokgrammar.accepts([tokgrammar.kind_of(t) for t in toks]):
                bad = 'token sequence of an input that parses is rejected by the token grammar: ' + ' '.join(tokgrammar.kind_of(t) for t in toks)[:300]
            else:
                g = evgrammar.check([evgrammar.kind_of(e) for e in evs])
                if g:
                    bad = 'event sequence is not grammatical: %s: %s' % (g, ' '.join(evgrammar.kind_of(e) for e in evs)[:300])
        if bad:
            ctx.stat('bad:' + bname)
            mech = None
            if bname == 'c' and 'rejected by the token grammar' in bad and sigs.f14_pattern([type(t).__name__ for t in toks]):
                mech = 'F14'
            ctx.violation(dict(case, backend=bname), {'what': bad, 'backend': bname}, mech)
    ctx.case(core.h64(text), produced > 2, [cls])


# ---------------------------------------------------------------------------------------------
# the parser alone, driven by a stub token source

TOK = dict(SS=T.StreamStartToken, SE=T.StreamEndToken, DIR=T.DirectiveToken, DS=T.DocumentStartToken, DE=T.DocumentEndToken,
           BSS=T.BlockSequenceStartToken, BMS=T.BlockMappingStartToken, BE=T.BlockEndToken, FSS=T.FlowSequenceStartToken,
           FMS=T.FlowMappingStartToken, FSE=T.FlowSequenceEndToken, FME=T.FlowMappingEndToken, KEY=T.KeyToken, VALUE=T.ValueToken,
           ENTRY=T.BlockEntryToken, FENTRY=T.FlowEntryToken, ALIAS=T.AliasToken, ANCHOR=T.AnchorToken, TAG=T.TagToken, SCALAR=T.ScalarToken)


def mk_token(name, i):
    kind = TOK[name]
    m1 = yaml.Mark('stub', 2 * i, 0, 2 * i, None, None)
    m2 = yaml.Mark('stub', 2 * i + 1, 0, 2 * i + 1, None, None)
    if kind is T.DirectiveToken:
        return T.DirectiveToken('TAG', ('!e%d!' % i, 'x'), m1, m2)      # distinct handles: duplicate handles are semantics, not grammar
    if kind in (T.AliasToken, T.AnchorToken):
        return kind('a', m1, m2)
    if kind is T.TagToken:
        return T.TagToken(('!', 'x'), m1, m2)
    if kind is T.ScalarToken:
        return T.ScalarToken('v', True, m1, m2)
    if kind is T.StreamStartToken:
        return T.StreamStartToken(m1, m2, encoding=None)
    return kind(m1, m2)


class Stub(yaml.parser.Parser):
    def __init__(self, toks):
        self.toks = toks
        yaml.parser.Parser.__init__(self)

    def check_token(self, *choices):
        if self.toks:
            if not choices:
                return True
            return isinstance(self.toks[0], choices)
        return False

    def peek_token(self):
        return self.toks[0] if self.toks else None

    def get_token(self):
        return self.toks.pop(0) if self.toks else None


def stub_case(seq, ctx):
    """seq: kind names without SS/SE."""
    full = ('SS',) + tuple(seq) + ('SE',)
    p = Stub([mk_token(k, i) for i, k in enumerate(full)])
    events = []
    outcome = None
    try:
        while p.check_event():
            events.append(p.get_event())
        outcome = 'accepted' if not p.toks else 'stopped-early'
    except yaml.parser.ParserError:
        outcome = 'ParserError'
    except yaml.YAMLError as e:
        outcome = 'other-yaml:' + type(e).__name__
    except RecursionError:
        ctx.stat('recursion_out_of_scope')
        return
    except Exception as e:
        outcome = 'nonyaml:' + type(e).__name__
    g = tokgrammar.accepts(full)
    ctx.stat('stub_sequences')
    ctx.stat('stub:' + ('accepted' if outcome == 'accepted' else 'rejected'))
    bad = None
    if outcome.startswith('nonyaml') or outcome.startswith('other-yaml'):
        bad = 'the parser rejected a token sequence with %s instead of ParserError' % outcome.split(':')[1]
    elif (outcome == 'accepted') != g:
        bad = 'parser %s the sequence, the documented grammar %s it' % ('accepts' if outcome == 'accepted' else 'rejects (%s)' % outcome,
                                                                        'accepts' if g else 'rejects')
    elif outcome == 'accepted':
        e = evgrammar.check([evgrammar.kind_of(x) for x in events])
        if e:
            bad = 'accepted token sequence yields ungrammatical events: %s: %s' % (e, ' '.join(evgrammar.kind_of(x) for x in events))
        else:
            prev = 0
            for x in events:
                if x.start_mark is None or x.end_mark is None or x.start_mark.index > x.end_mark.index or x.start_mark.index < prev:
                    bad = 'event marks out of order over stub tokens: %s' % type(x).__name__
                    break
                prev = x.start_mark.index
    if bad:
        ctx.violation({'tokens': list(seq)}, {'what': bad, 'tokens': ' '.join(seq)}, None)


def random_token_seq(r):
    """Biased towards acceptance: derive from the grammar, then maybe mutate."""
    out = []

    def props():
        c = r.random()
        if c < 0.2:
            out.append('ANCHOR')
        elif c < 0.3:
            out.append('TAG')
        elif c < 0.38:
            out.extend(r.choice([['ANCHOR', 'TAG'], ['TAG', 'ANCHOR']]))

    def node(depth, flow, indentless_ok=False):
        if r.random() < 0.1:
            out.append('ALIAS')
            return
        props()
        c = r.random()
        if depth > 3 or c < 0.45:
            if r.random() < 0.9:
                out.append('SCALAR')
            return
        if not flow and c < 0.6:
            out.append('BSS')
            for _ in range(r.randint(0, 2)):
                out.append('ENTRY')
                if r.random() < 0.8:
                    node(depth + 1, False)
            out.append('BE')
        elif not flow and c < 0.75:
            out.append('BMS')
            for _ in range(r.randint(0, 2)):
                out.append('KEY')
                if r.random() < 0.8:
                    node(depth + 1, False, True)
                if r.random() < 0.85:
                    out.append('VALUE')
                    if r.random() < 0.8:
                        node(depth + 1, False, True)
            out.append('BE')
        elif not flow and indentless_ok and c < 0.8:
            for _ in range(r.randint(1, 2)):
                out.append('ENTRY')
                if r.random() < 0.8:
                    node(depth + 1, False)
        else:
            seqk = r.random() < 0.5
            out.append('FSS' if seqk else 'FMS')
            k = r.randint(0, 3)
            for j in range(k):
                if r.random() < 0.4:
                    out.append('KEY')
                    if r.random() < 0.8:
                        node(depth + 1, True)
                    if r.random() < 0.8:
                        out.append('VALUE')
                        if r.random() < 0.8:
                            node(depth + 1, True)
                else:
                    node(depth + 1, True)
                if j < k - 1 or r.random() < 0.3:
                    out.append('FENTRY')
            out.append('FSE' if seqk else 'FME')
    ndocs = r.randint(0, 2)
    for d in range(ndocs):
        if d > 0 or r.random() < 0.5:
            for _ in range(r.choice([0, 0, 1, 2])):
                out.append('DIR')
            out.append('DS')
            if r.random() < 0.9:
                node(0, False)
        else:
            node(0, False)
            if not out:
                out.append('SCALAR')
        for _ in range(r.choice([0, 0, 1, 2])):
            out.append('DE')
    if r.random() < 0.5 and out:
        for _ in range(r.choice([1, 1, 2])):
            op = r.random()
            i = r.randrange(len(out) + 1)
            if op < 0.4:
                out.insert(i, r.choice(tokgrammar.KINDS))
            elif op < 0.7 and out:
                del out[min(i, len(out) - 1)]
            elif out:
                out[min(i, len(out) - 1)] = r.choice(tokgrammar.KINDS)
    return out[:40]


# ---------------------------------------------------------------------------------------------
class ScannerHook:
    """Invariants of the scanner's token queue after every fetch (evidence: a discrepancy marks where the boundary oracle
    should look, it is not a verdict)."""

    def __init__(self, ctx):
        self.ctx = ctx
        S_ = yaml.scanner.Scanner
        orig = S_.__dict__.get('fetch_more_tokens')
        if orig is None:
            ctx.stat('hook_missing:fetch_more_tokens')
            return
        hook = self

        def fetch_more_tokens(sc):
            r = orig(sc)
            hook.after(sc)
            return r
        S_.fetch_more_tokens = fetch_more_tokens

    def after(self, sc):
        ctx = self.ctx
        ctx.stat('hook_evaluations')
        try:
            toks = sc.tokens
            ctx.statmax('max:token_queue', len(toks))
            idx = [t.start_mark.index for t in toks]
            if any(a > b for a, b in zip(idx, idx[1:])):
                ctx.stat('hook_discrepancy:queue_not_ordered_by_start')
            ind = list(sc.indents) + [sc.indent]
            if ind[0] != -1 or any(a >= b for a, b in zip(ind, ind[1:])):
                ctx.stat('hook_discrepancy:indent_stack_not_increasing')
            for k in sc.possible_simple_keys.values():
                if k.token_number < sc.tokens_taken:
                    ctx.stat('hook_discrepancy:simple_key_points_at_a_released_token')
                    break
        except Exception:
            ctx.stat('hook_unreadable')


def gen_input(r):
    c = r.random()
    if c < 0.35:
        br = r.choice(['\n', '\r\n', '\r', NEL, '\n', '\r'])
        text, exp, docs, classes, ends = gdoc.gen_stream(r, br=br)
        if r.random() < 0.1:
            text = BOM + text
        return text, 'gdoc'
    name, raw = r.choice(corpus.files(max_size=3000))
    t = raw.decode('utf-8', 'replace')
    if c < 0.5:
        cls = 'corpus'
    else:
        t = corpus.mutate_text(r, t)
        cls = 'mutated'
    if r.random() < 0.25:
        # vary the break repertoire: where column/line counting is easiest to get wrong
        t = t.replace('\n', r.choice(['\r', '\r\n', NEL, LS, PS, '\n\r']))
        cls += '+breaks'
    if c > 0.92:
        s, scls = S.gen(r)
        t = r.choice(['', '- ', 'k: ', '? ']) + s
        cls = 'gstr'
    return t, cls


def reader_positions(ctx):
    """The position carried by a ReaderError is the true offset of the offending character / byte, wherever it lies relative to
    the reader's refills and however the input is delivered."""
    import io
    for off in (0, 7, 4095, 4096, 4097, 8190, 8191, 8192, 8193, 9011, 12287, 12288, 12289, 20001, 40000):
        for body in ('k: v\n', 'w' * 97 + '\n', '# ' + 'c' * 300 + '\n', 'x'):
            pad = (body * (off // len(body) + 1))[:off]
            for bad_ch, label in (('\x07', 'bell'), ('\x00', 'nul'), (chr(0xffff), 'nonchar')):
                text = pad + bad_ch + '\ntail: 1\n'
                raw = text.encode('utf-8')
                boff = len(pad.encode('utf-8'))
                for form, src, want in (('str', text, off), ('bytes', raw, off), ('text_stream', io.StringIO(text), off), ('byte_stream', io.BytesIO(raw), off)):
                    for bname, L in (('py', yaml.Loader),) + ((('c', yaml.CLoader),) if yamlapi.HAVE_C else ()):
                        if bname == 'c' and form in ('text_stream',) and False:
                            continue
                        if form.endswith('stream'):
                            src = io.StringIO(text) if form == 'text_stream' else io.BytesIO(raw)
                        try:
                            for _ in yaml.scan(src, Loader=L):
                                pass
                            got = None
                        except yaml.reader.ReaderError as e:
                            got = e.position
                        except yaml.YAMLError as e:
                            got = 'other:' + type(e).__name__
                        ctx.stat('reader_position_checks')
                        ctx.case(core.h64('rpos', off, body[:3], label, form, bname), True, ['reader_position'])
                        if bname == 'py' and got != want:
                            ctx.violation({'reader_position': off, 'form': form, 'char': label, 'body': body[:8]},
                                          {'what': 'ReaderError.position is not the offset of the offending character', 'position': got, 'true_offset': want, 'backend': bname}, None)
                        elif bname == 'c' and got is None:
                            ctx.violation({'reader_position': off, 'form': form, 'char': label, 'body': body[:8]}, {'what': 'non-printable character accepted', 'backend': bname}, None)


def run(spec, ctx):
    k = spec['kind']
    if k in ('inputs', 'exh'):
        ScannerHook(ctx)
    if k == 'inputs':
        r = random.Random(core.h64('C09', spec['seed'], spec['shard']))
        if spec['shard'] == 0:
            # keys exactly on the simple-key length limit (1024), in every spelling, plus multi-byte / break variants
            for text, label in boundary.simple_key_docs():
                check_text(text, ctx, 'limit:' + label.split(':')[0])
                check_text(text.replace('k', chr(0xe9), 3).replace('\n', '\r\n'), ctx, 'limit:' + label.split(':')[0])
        if spec['shard'] == 1:
            reader_positions(ctx)
        for i in range(spec['n']):
            text, cls = gen_input(r)
            if i < 3:
                ctx.sample({'class': cls, 'text': text[:200]})
            if sum(text.count(c) for c in '[{-:?') > 400:
                continue
            check_text(text, ctx, cls)
    elif k == 'exh':
        n = 0
        for L in range(0, spec['maxlen'] + 1):
            for combo in itertools.product(EXH_ALPHA, repeat=L):
                if n % spec['of'] == spec['shard']:
                    check_text(''.join(combo), ctx, 'exh_len%d' % L)
                n += 1
        ctx.stat('exhaustive_input_shards_done')
        ctx.sample({'class': 'exhaustive', 'alphabet': ''.join(EXH_ALPHA), 'maxlen': spec['maxlen']})
    elif k == 'stub':
        n = 0
        for L in range(0, spec['maxlen'] + 1):
            for combo in itertools.product(tokgrammar.KINDS, repeat=L):
                if n % spec['of'] == spec['shard']:
                    ctx.case(core.h64('stub', combo), L > 0, ['stub_len%d' % L])
                    stub_case(combo, ctx)
                n += 1
        ctx.stat('exhaustive_stub_shards_done')
        r = random.Random(core.h64('C09stub', spec['seed'], spec['shard']))
        for i in range(spec['random']):
            seq = random_token_seq(r)
            ctx.case(core.h64('stub', tuple(seq)), len(seq) > 0, ['stub_random'])
            if i < 2:
                ctx.sample({'class': 'stub token sequence', 'tokens': ' '.join(seq)})
            stub_case(seq, ctx)


def replay(case, ctx):
    if 'reader_position' in case:
        reader_positions(ctx)
        return
    if 'tokens' in case:
        ctx.case(core.h64(repr(case)), True)
        stub_case(case['tokens'], ctx)
    else:
        check_text(case['text'], ctx, 'replay')


def summarize(agg, tier):
    st = agg['stats']
    out = {'exhaustive': False,
           'exhaustive_slices': 'inputs: all strings over %r up to length %d; parser: all sequences over the 18 token kinds up to length %d (complete iff the *_shards_done counters equal the planned shard counts)' % (
               ''.join(EXH_ALPHA), 4 if tier == 'quick' else 5, 4 if tier == 'quick' else 5),
           'stub_accepted': st.get('stub:accepted', 0), 'stub_rejected': st.get('stub:rejected', 0),
           'scanner_hook': {'evaluations': st.get('hook_evaluations', 0), 'token_queue_high_water_mark': st.get('max:token_queue', 0),
                            'discrepancies': {k.split(':', 1)[1]: v for k, v in st.items() if k.startswith('hook_discrepancy:')}}}
    if not st.get('scans') or not st.get('stub_sequences'):
        out['_inconclusive'] = 'the mark monitor or the stub-driven parser observed nothing'
    elif not st.get('stub:accepted') or not st.get('grammar_checks'):
        out['_inconclusive'] = 'no accepted token sequence / no parsing input: the grammar recognisers were never exercised on a positive case'
    return out
