"""C12 - multi-document streams keep their document boundaries (dump_all/serialize_all/emit -> load_all/
compose_all/parse gives the same n documents; what is written for a document does not depend on what follows)."""
import random

import yaml

from .. import core, yamlapi, sigs
from ..gen import events as EV, strings as S
from ..mon import streams
from ..ref import bisim
from . import c05

ID = 'C12'
LEVEL = 'exploration'
LEVEL_TEXT = ('Exploration: lists of 0-5 documents drawn from pools rich in boundary-sensitive roots (empty and open-ended plain scalars, '
              'strings that look like document markers or directives, literal/folded scalars with trailing breaks (keep chomping), '
              'empty and alias-only collections, empty scalar nodes with elidable and non-elidable tags, documents with %YAML/%TAG) '
              'are written at three API levels (dump_all of values, serialize_all of node graphs, emit of event streams) under '
              'generated options (explicit_start/explicit_end/version/tags/default_style/canonical/line_break/width/indent) by '
              'both back-ends and read back by both back-ends; the monitor demands exactly n documents, each equal to its input '
              '(ref.bisim / node signature / event relation), and - through an instrumented output stream - that the text written '
              'up to each flush, and the text of every prefix list of documents (minus an optional closing "..."), is a prefix of '
              'what is written for the whole list.' + " Emit-level documents carry per-document redefinitions of '!' and '!!' followed by directive-less documents that use those handles.")
LEVEL_NOTE = 'Held on the document lists generated.'
TECHNIQUE = 'runtime monitoring: boundary oracle (count + per-document equality at three API levels) + instrumented output stream for prefix stability'
DESIGN_REF = 'DESIGN.md section 3, C12'
RULE = ('a case is (API level, list of documents, options) x dumper x loader; non-trivial = at least two documents or a '
        'boundary-sensitive root; distinct by hash of (level, documents, options)')
ASSUMPTIONS = ['string values are Unicode scalar values (no lone surrogates)']
NEL = chr(0x85)

VALUES = ['', ' ', 'a', 'a b', 'a\n', 'a\n\n', 'a\n\n\n', '\n', '\n\n', 'a\nb', 'a\nb\n', ' a\n', 'a \n', '---', '...', '--- a', '... a', '---\n', '...\n', 'a\n---\nb',
          'a\n...\nb', 'a\n--- b\n', '%YAML 1.1', '%TAG ! !x', '# c', 'a # c', '- a', '? a', ': a', 'a: b', '[a', '{a', '*a', '&a', '!a', '|', '>', '|+', "'", '"', '~',
          'null', 'yes', '1', '1.5', '2001-01-01', '<<', '=', 'x' * 200, ('word ' * 40).strip(), 'a' + NEL + 'b', 'a\r\nb', 'a\rb', '\t', 'a\tb', chr(0xe9), chr(0x1F600),
          'a\n\nb\n\n', '  a', 'a\n  b\n', 'a\n b\n\n']
OPTS = {
    'explicit_start': [None, True, False], 'explicit_end': [None, True, False], 'version': [None, None, (1, 1), (1, 2)],
    'tags': [None, None, {'!e!': 'tag:example.com,2000:'}, {'!': '!loc-'}], 'default_style': [None, None, '"', "'", '|', '>'],
    'canonical': [None, None, None, True], 'line_break': [None, '\n', '\r', '\r\n'], 'width': [None, 5, 20, 80], 'indent': [None, 2, 4, 9],
    'default_flow_style': [False, True, None], 'allow_unicode': [None, True], 'sort_keys': [True, False],
}


def plan(tier, seed):
    q = tier == 'quick'
    specs = []
    for lvl in ('dump', 'serialize', 'emit'):
        for i in range(4 if q else 5):
            specs.append({'kind': lvl, 'shard': i, 'n': 7000 if q else 60000, 'cext': 'plain'})
    specs.append({'kind': 'boundary', 'shard': 0, 'n': 1, 'cext': 'plain'})
    return specs


def boundary_case(ctx, marker_at, second, opts, pad_root):
    """dump_all of documents sized so that a document marker ('---' / '...') written between them lies across a refill boundary
    of a reader that is fed from a stream; what load_all reads from text and byte streams must be the n documents again."""
    import io
    for dname in yamlapi.loaders(['SafeDumper', 'CSafeDumper']):
        D = getattr(yaml, dname)
        o = dict(opts, width=10 ** 7)
        mk = (lambda n: 'p' * n) if pad_root == 'scalar' else (lambda n: ['p' * n])
        base = yaml.dump_all([mk(0), second], Dumper=D, **o)
        import re
        mm = re.search(r'(?m)^(---|\.\.\.)', base[1:])          # the first marker after the beginning of the pad document
        if mm is None:
            ctx.stat('boundary_no_marker')
            continue
        pos0 = mm.start() + 1
        n = marker_at - pos0
        docs = [mk(n), second, 'tail']
        text = yaml.dump_all(docs, Dumper=D, **o)
        case = {'level': 'boundary', 'marker_at': marker_at, 'second': second, 'opts': opts, 'pad_root': pad_root, 'D': dname}
        ctx.crumb(case)
        ctx.case(core.h64('boundary', marker_at, repr(second), repr(opts), pad_root, dname), True, ['boundary'])
        for lname in yamlapi.loaders(['SafeLoader', 'CSafeLoader']):
            for form in ('text_stream', 'byte_stream', 'str'):
                src = io.StringIO(text) if form == 'text_stream' else (io.BytesIO(text.encode('utf-8')) if form == 'byte_stream' else text)
                try:
                    got = list(yaml.load_all(src, Loader=getattr(yaml, lname)))
                except yaml.YAMLError as e:
                    ctx.violation(dict(case, L=lname, form=form), {'what': 'dump_all output read from a stream is rejected', 'exc': yamlapi.exc_sig(e), 'marker_offset': text.find('---', 5)}, None)
                    continue
                ctx.stat('boundary_readbacks')
                if got != docs:
                    ctx.violation(dict(case, L=lname, form=form), {'what': 'dump_all output read from a stream gives other documents', 'read': len(got), 'written': len(docs),
                                                                   'first_diff': repr(next(((a, b) for a, b in zip(got, docs) if a != b), None))[:200]}, None)


def boundary_cases(ctx):
    for k in (1, 2, 3, 4):
        for j in range(-1, 5):
            at = 4096 * k - j
            for second in ('b', ['x', 'y'], {'k': 'v'}, 'two words', ''):
                for opts in ({'explicit_start': True}, {'explicit_end': True}, {}, {'explicit_start': True, 'line_break': '\r\n'}, {'explicit_end': True, 'explicit_start': True}):
                    for pad_root in ('scalar', 'list'):
                        boundary_case(ctx, at, second, opts, pad_root)


def gen_opts(r, keys=None):
    o = {}
    for k, vals in OPTS.items():
        if keys and k not in keys:
            continue
        if r.random() < 0.45:
            continue
        o[k] = r.choice(vals)
    return o


def jopts(o):
    d = dict(o)
    if d.get('version'):
        d['version'] = list(d['version'])
    return d


def unjopts(d):
    o = dict(d)
    if o.get('version'):
        o['version'] = tuple(o['version'])
    return o


# ---------------------------------------------------------------------------------------------
# dump_all level

def gen_value(r):
    """JSON-able recipe of one document value."""
    c = r.random()
    if c < 0.55:
        return ['s', r.choice(VALUES) if r.random() < 0.8 else S.gen(r)[0]]
    if c < 0.62:
        return ['none']
    if c < 0.7:
        return ['atom', r.choice([0, 1, -1, 1.5, True, False])]
    if c < 0.76:
        return ['list', []]
    if c < 0.82:
        return ['dict', []]
    if c < 0.88:
        return ['shared', r.choice(['list', 'dict'])]          # alias-only content: [x, x] with x empty
    if c < 0.91:
        return ['list', [gen_value(r) for _ in range(r.randint(1, 3))]]
    keys = []
    for _ in range(r.randint(1, 4)):
        k = r.choice(VALUES + ['k', 'k2', '+1', '#c', '!x', '--- a', '... b', '---', '...'])
        if k not in keys:
            keys.append(k)
    return ['dict', [[k, gen_value(r)] for k in keys]]


def build_value(v):
    t = v[0]
    if t == 's':
        return v[1]
    if t == 'none':
        return None
    if t == 'atom':
        return v[1]
    if t == 'list':
        return [build_value(x) for x in v[1]]
    if t == 'dict':
        return {k: build_value(x) for k, x in v[1]}
    x = [] if v[1] == 'list' else {}
    return [x, x]


def strip_end_marker(text, br_candidates=('\r\n', '\n', '\r')):
    for br in br_candidates:
        if text.endswith('...' + br):
            return text[:-(3 + len(br))]
    return text


def prefix_checks(write, docs, ctx, case, dname):
    """write(docs, stream) -> None.  Prefix stability of the text for documents 1..i."""
    full = streams.WriteStream(text=True)
    try:
        write(docs, full)
    except yaml.YAMLError:
        return
    whole = full.written() or ''
    segs = full.segments()
    for i in range(1, len(docs)):
        part = streams.WriteStream(text=True)
        try:
            write(docs[:i], part)
        except yaml.YAMLError:
            return
        ptext = part.written() or ''
        ctx.stat('prefix_checks')
        core_text = strip_end_marker(ptext)
        if not whole.startswith(core_text):
            ctx.violation(dict(case, D=dname, prefix=i), {'what': 'the text written for the first documents depends on the documents that follow',
                                                           'prefix_docs': i, 'text_of_prefix': ptext[-300:], 'text_of_all': whole[:600]}, None)
            return
        psegs = part.segments()
        if segs and psegs and not dname.startswith('C'):
            # pure-Python emitter flushes at each DOCUMENT-END: what was flushed for document k < i must be identical
            if psegs[:i] != segs[:i] and len(psegs) >= i and len(segs) >= i:
                ctx.violation(dict(case, D=dname, prefix=i), {'what': 'text flushed at a DOCUMENT-END differs when more documents follow',
                                                               'flushed_prefix': psegs[:i][-1][-200:], 'flushed_all': segs[:i][-1][-200:]}, None)
                return
            ctx.stat('flush_segments_compared', min(i, len(segs)))


def dump_case(r, ctx, i):
    docs = [gen_value(r) for _ in range(r.choice([0, 1, 2, 2, 3, 3, 4, 5]))]
    opts = gen_opts(r)
    case = {'level': 'dump', 'docs': docs, 'opts': jopts(opts)}
    nt = len(docs) >= 2 or any(d[0] == 's' for d in docs)
    ctx.case(core.h64('dump', repr(docs), repr(sorted(opts.items(), key=str))), nt, ['level:dump', 'ndocs:%d' % len(docs)])
    if i < 2:
        ctx.sample(case)
    check_dump(docs, opts, ctx, case)


def directives_check(text, opts, ndocs, ctx, case):
    """version= and tags= apply to every document of the stream: each DocumentStart read back carries them."""
    want_v = tuple(opts['version']) if opts.get('version') else None
    want_t = dict(opts['tags']) if opts.get('tags') else None
    if want_v is None and want_t is None:
        return
    try:
        ds = [e for e in yaml.parse(text if isinstance(text, str) else text.decode('utf-8', 'replace'), Loader=yaml.SafeLoader) if isinstance(e, yaml.DocumentStartEvent)]
    except yaml.YAMLError:
        return
    ctx.stat('directive_checks')
    for k, e in enumerate(ds):
        got_v = tuple(e.version) if e.version else None
        got_t = dict(e.tags) if e.tags else None
        if (want_v is not None and got_v != want_v) or (want_t is not None and got_t != want_t):
            ctx.violation(case, {'what': 'document %d of the stream does not carry the %%YAML / %%TAG directives the options ask for' % k, 'version': repr(got_v), 'tags': repr(got_t),
                                 'wanted': repr((want_v, want_t)), 'text': text[:600] if isinstance(text, str) else None}, None)
            return


def check_dump(docs, opts, ctx, case, only=None):
    values = [build_value(d) for d in docs]
    for dname in yamlapi.loaders(['SafeDumper', 'CSafeDumper']):
        if only and only[0] != dname:
            continue
        ctx.crumb(dict(case, D=dname))
        try:
            text = yaml.dump_all([build_value(d) for d in docs], Dumper=getattr(yaml, dname), **opts)
        except yaml.YAMLError as e:
            ctx.violation(dict(case, D=dname), {'what': 'dump_all rejected plain data', 'exc': yamlapi.exc_sig(e)}, None)
            continue
        ctx.stat('writes')
        directives_check(text, opts, len(docs), ctx, dict(case, D=dname))
        for lname in yamlapi.loaders(['SafeLoader', 'CSafeLoader']):
            if only and only[1] != lname:
                continue
            who = dict(case, D=dname, L=lname)
            try:
                back = list(yaml.load_all(text, Loader=getattr(yaml, lname)))
            except yaml.YAMLError as e:
                ctx.violation(who, {'what': 'dump_all output rejected', 'exc': yamlapi.exc_sig(e), 'text': text[:800]}, classify_text(dname, opts, docs, None))
                continue
            ctx.stat('readbacks')
            if len(back) != len(values):
                ctx.violation(who, {'what': 'number of documents changed', 'written': len(values), 'read': len(back), 'text': text[:800]}, classify_text(dname, opts, docs, None))
                continue
            for k, (a, b) in enumerate(zip(values, back)):
                m = bisim.diff(a, b, ordered=False)
                if m:
                    ctx.violation(who, {'what': 'document %d differs after the round trip' % k, 'diff': m[:300], 'text': text[:800]}, classify_value(dname, opts, a, b))
                    break
        # the same documents handed over lazily: each value exists only while it is being dumped (its address is free for
        # the next one), or one record object is refilled for every document - the text must not depend on that
        try:
            lazy = yaml.dump_all((build_value(d) for d in docs), Dumper=getattr(yaml, dname), **opts)
            ctx.stat('lazy_dump_checks')
            if lazy != text:
                ctx.violation(dict(case, D=dname), {'what': 'dump_all of a generator of short-lived documents differs from dump_all of the list', 'list_text': text[:500], 'lazy_text': lazy[:500]}, None)
            if len(values) > 1 and all(type(v) is dict for v in values):
                def refill():
                    rec = {}
                    for d in docs:
                        rec.clear()
                        rec.update(build_value(d))
                        yield rec
                re_text = yaml.dump_all(refill(), Dumper=getattr(yaml, dname), **opts)
                ctx.stat('refill_dump_checks')
                if re_text != text:
                    ctx.violation(dict(case, D=dname), {'what': 'dump_all of one refilled record object differs from dump_all of separate documents', 'list_text': text[:500], 'refill_text': re_text[:500]}, None)
        except yaml.YAMLError as e:
            ctx.violation(dict(case, D=dname), {'what': 'dump_all rejected lazily produced documents', 'exc': yamlapi.exc_sig(e)}, None)
        o2 = {k: v for k, v in opts.items()}
        prefix_checks(lambda ds, st: yaml.dump_all([build_value(d) for d in ds], st, Dumper=getattr(yaml, dname), **o2), docs, ctx, case, dname)


def classify_text(dname, opts, docs, nodes):
    return None


def classify_value(dname, opts, a, b):
    # F7c (libyaml folds inside more-indented lines)
    if dname.startswith('C') and opts.get('default_style') == '>':
        msg, la, lb = bisim.diff_ex(a, b)
        from .c02 import f7c_symptom
        if f7c_symptom(la, lb):
            return 'F7c'
    return None


# ---------------------------------------------------------------------------------------------
# serialize_all level

CORE = 'tag:yaml.org,2002:'
SCALAR_NODES = [(CORE + 'null', ''), (CORE + 'str', ''), ('!foo', ''), (CORE + 'null', '~'), (CORE + 'str', 'a'), (CORE + 'str', 'a\n\n'), (CORE + 'str', '---'), (CORE + 'str', '...'),
                (CORE + 'int', '1'), (CORE + 'str', '1'), (CORE + 'int', 'x'), (CORE + 'bool', 'yes'), (CORE + 'str', '# c'), (CORE + 'str', 'a\n...\nb'), (CORE + 'str', '%YAML 1.1'),
                ('tag:example.com,2000:t', 'v'), ('!loc-x', ''), (CORE + 'str', 'a: b'), (CORE + 'str', '\n'), (CORE + 'merge', '<<'), (CORE + 'value', '=')]


def gen_node_spec(r, depth=0):
    c = r.random()
    if c < 0.6 or depth >= 2:
        tag, val = r.choice(SCALAR_NODES)
        return ['s', tag, val, r.choice([None, None, '', '"', "'", '|', '>'])]
    if c < 0.72:
        return ['q', r.choice([CORE + 'seq', CORE + 'seq', '!s']), [], r.choice([None, True, False])]
    if c < 0.82:
        return ['m', r.choice([CORE + 'map', CORE + 'map', CORE + 'set']), [], r.choice([None, True, False])]
    if c < 0.88:
        return ['shared']
    if c < 0.94:
        return ['q', CORE + 'seq', [gen_node_spec(r, depth + 1) for _ in range(r.randint(1, 3))], r.choice([None, True, False])]
    return ['m', CORE + 'map', [[gen_node_spec(r, 2), gen_node_spec(r, depth + 1)] for _ in range(r.randint(1, 2))], r.choice([None, True, False])]


def build_node(s):
    t = s[0]
    if t == 's':
        return yaml.ScalarNode(s[1], s[2], style=s[3])
    if t == 'q':
        return yaml.SequenceNode(s[1], [build_node(x) for x in s[2]], flow_style=s[3])
    if t == 'm':
        return yaml.MappingNode(s[1], [(build_node(k), build_node(v)) for k, v in s[2]], flow_style=s[3])
    x = yaml.SequenceNode(CORE + 'seq', [], flow_style=True)
    return yaml.SequenceNode(CORE + 'seq', [x, x], flow_style=False)


def empty_plain_root(spec):
    return spec[0] == 's' and spec[2] == '' and spec[3] in (None, '')


def serialize_case(r, ctx, i):
    docs = [gen_node_spec(r) for _ in range(r.choice([0, 1, 2, 2, 3, 3, 4, 5]))]
    opts = gen_opts(r, keys=('explicit_start', 'explicit_end', 'version', 'tags', 'canonical', 'line_break', 'width', 'indent', 'allow_unicode'))
    share = []
    if len(docs) >= 2 and r.random() < 0.35:
        for _ in range(r.randint(1, 2)):
            i = r.randrange(len(docs) - 1)
            share.append([i, r.randrange(i + 1, len(docs))])
    case = {'level': 'serialize', 'docs': docs, 'opts': jopts(opts), 'share': share}
    ctx.case(core.h64('ser', repr(docs), repr(share), repr(sorted(opts.items(), key=str))), True, ['level:serialize', 'ndocs:%d' % len(docs)] + (['shared_node_objects'] if share else []))
    if i < 2:
        ctx.sample(case)
    check_serialize(docs, opts, ctx, case)


def build_nodes(docs, share):
    """One node graph per document; share = [[i, j], ...]: document j is the very same node object as document i, or (for
    collections) holds the same first child object.  The serializer must treat every document on its own."""
    nodes = [build_node(d) for d in docs]
    touched = set()
    for i, j in share or []:
        if i in touched or j in touched:
            continue                          # every document takes part in at most one sharing: a later pair must not rewrite an earlier document
        touched.update((i, j))
        if i < len(nodes) and j < len(nodes) and i != j:
            a, b = nodes[i], nodes[j]
            if isinstance(a, yaml.CollectionNode) and isinstance(b, yaml.CollectionNode) and a.value and b.value and type(a) is type(b):
                b.value[0] = a.value[0]          # a child object shared between two documents
            else:
                nodes[j] = a                     # the same root object twice
    return nodes


def check_serialize(docs, opts, ctx, case, only=None):
    share = case.get('share')
    want = [sigs.node_sig(n) for n in build_nodes(docs, share)]
    for dname in yamlapi.loaders(['Dumper', 'CDumper']):
        if only and only[0] != dname:
            continue
        ctx.crumb(dict(case, D=dname))
        try:
            text = yaml.serialize_all(build_nodes(docs, share), Dumper=getattr(yaml, dname), **opts)
        except yaml.YAMLError as e:
            ctx.violation(dict(case, D=dname), {'what': 'serialize_all rejected a node graph', 'exc': yamlapi.exc_sig(e)}, None)
            continue
        ctx.stat('writes')
        if not (dname == 'CDumper' and not opts.get('canonical') and f9a_nodes(docs, opts)):
            directives_check(text, opts, len(docs), ctx, dict(case, D=dname))
        for lname in yamlapi.loaders(['Loader', 'CLoader']):
            if only and only[1] != lname:
                continue
            who = dict(case, D=dname, L=lname)
            mech = 'F9a' if (dname == 'CDumper' and not opts.get('canonical') and f9a_nodes(docs, opts)) else None
            try:
                back = [sigs.node_sig(n) for n in yaml.compose_all(text, Loader=getattr(yaml, lname))]
            except yaml.YAMLError as e:
                ctx.violation(who, {'what': 'serialize_all output rejected', 'exc': yamlapi.exc_sig(e), 'text': text[:800]}, mech)
                continue
            ctx.stat('readbacks')
            if len(back) != len(want):
                ctx.violation(who, {'what': 'number of documents changed', 'written': len(want), 'read': len(back), 'text': text[:800]}, mech)
                continue
            for k, (a, b) in enumerate(zip(want, back)):
                if a != b:
                    ctx.violation(who, {'what': 'document %d differs after the round trip' % k, 'wrote': a[:300], 'read': b[:300], 'text': text[:800]},
                                  classify_nodes(dname, opts, docs[k], a, b))
                    break
        prefix_checks(lambda ds, st: yaml.serialize_all(build_nodes(ds, share), st, Dumper=getattr(yaml, dname), **opts), docs, ctx, case, dname)


def f9a_nodes(docs, opts):
    """Mechanism of F9a at node level: an implicitly started document whose root is an empty scalar written plain without a tag."""
    if opts.get('explicit_start') or opts.get('version') or opts.get('tags'):
        return False
    for d in docs:
        if d[0] == 's' and d[2] == '' and d[3] in (None, '') and d[1] == CORE + 'null':
            return True
    return False


def classify_nodes(dname, opts, spec, a, b):
    return None


# ---------------------------------------------------------------------------------------------
# emit level

ROOTS = [['SC', None, None, [True, True], '', None], ['SC', None, None, [True, True], '', ''], ['SC', None, 'tag:yaml.org,2002:null', [True, False], '', None],
         ['SC', None, 'tag:yaml.org,2002:str', [False, True], '', None], ['SC', None, '!t', [False, False], '', None], ['SC', None, None, [True, True], 'a', None],
         ['SC', None, None, [True, True], 'a\n\n', '|'], ['SC', None, None, [True, True], 'a\n\n', '>'], ['SC', None, None, [True, True], 'a\n', '|'], ['SC', None, None, [True, True], '---', None],
         ['SC', None, None, [True, True], '...', None], ['SC', None, None, [True, True], 'a\n...\nb', None], ['SC', 'x', None, [True, True], '', None], ['SC', None, None, [True, True], '# c', None],
         ['SC', None, '!bar', [False, False], 'v', None], ['SC', None, 'tag:yaml.org,2002:int', [False, False], '1', "'"], ['SC', None, 'tag:example.com,2000:app/foo', [False, False], 'w', None],
         ['SC', None, 'tag:other.org,2002:str', [False, False], 'q', None], ['SC', None, '!my-own', [False, False], 'o', None], ['SC', None, 'tag:example.com,2000:x', [False, False], 'e', None],
         ['SC', None, None, [True, True], '%YAML 1.1', None], ['SC', None, None, [True, True], 'a b c d e f g h', None], ['SC', None, None, [True, True], '\n', None]]


def gen_event_doc(r):
    """events of one document (without stream start/end)"""
    # every document carries its own directives: handles (also the redefined '!' and '!!') end with the document
    tags = r.choice([None, None, None, None, {'!e!': 'tag:example.com,2000:'}, {'!': 'tag:example.com,2000:app/'}, {'!!': 'tag:other.org,2002:'}, {'!': '!my-'},
                     {'!e!': 'tag:other.org,2002:'}])
    version = r.choice([None, None, None, [1, 1]])
    out = [['DS', r.random() < 0.35, version, tags]]
    c = r.random()
    if c < 0.6:
        out.append(list(r.choice(ROOTS)))
    elif c < 0.7:
        out += [['QS', None, None, True, r.choice([None, True, False])], ['QE']]
    elif c < 0.8:
        out += [['MS', None, None, True, r.choice([None, True, False])], ['ME']]
    elif c < 0.88:
        out += [['QS', None, None, True, False], ['QS', 'a', None, True, True], ['QE'], ['AL', 'a'], ['QE']]
    else:
        g = EV.Gen(r, set())
        g.anchors, g.na = [], 0
        g.node(out, 2, tags or {})
    out.append(['DE', r.random() < 0.3])
    return out


def emit_case(r, ctx, i):
    docs = [gen_event_doc(r) for _ in range(r.choice([0, 1, 2, 2, 3, 3, 4, 5]))]
    opts = EV.gen_opts(r)
    for k in ('indent', 'width'):
        if opts.get(k) is not None and not isinstance(opts[k], int):
            opts.pop(k)
    case = {'level': 'emit', 'docs': docs, 'opts': opts}
    ctx.case(core.h64('emit', repr(docs), repr(sorted(opts.items(), key=str))), True, ['level:emit', 'ndocs:%d' % len(docs)])
    if i < 2:
        ctx.sample(case)
    check_emit(docs, opts, ctx, case)


def check_emit(docs, opts, ctx, case, only=None):
    spec = [['SS']] + [e for d in docs for e in d] + [['SE']]
    E = EV.build(spec)
    for dname in yamlapi.loaders(['Dumper', 'CDumper']):
        if only and only[0] != dname:
            continue
        ctx.crumb(dict(case, D=dname))
        try:
            text = yaml.emit(EV.build(spec), Dumper=getattr(yaml, dname), **opts)
        except yaml.YAMLError as e:
            ctx.violation(dict(case, D=dname), {'what': 'emit rejected a well-formed stream', 'exc': yamlapi.exc_sig(e)}, None)
            continue
        ctx.stat('writes')
        for lname in yamlapi.loaders(['Loader', 'CLoader']):
            if only and only[1] != lname:
                continue
            who = dict(case, D=dname, L=lname)
            try:
                P = list(yaml.parse(text, Loader=getattr(yaml, lname)))
            except yaml.YAMLError as e:
                ctx.violation(who, {'what': 'emit output rejected', 'exc': yamlapi.exc_sig(e), 'text': text[:800]}, c05.classify(spec, opts, dname, lname, None, E, None, text))
                continue
            ctx.stat('readbacks')
            nd = sum(1 for p in P if isinstance(p, yaml.DocumentStartEvent))
            msg = c05.relate(E, P)
            if nd != len(docs):
                ctx.violation(who, {'what': 'number of documents changed', 'written': len(docs), 'read': nd, 'text': text[:800]}, c05.classify(spec, opts, dname, lname, msg, E, P, text))
            elif msg:
                ctx.violation(who, {'what': 'events differ after the round trip', 'diff': msg[:400], 'text': text[:800]}, c05.classify(spec, opts, dname, lname, msg, E, P, text))

        def write(ds, st, dname=dname):
            yaml.emit(EV.build([['SS']] + [e for d in ds for e in d] + [['SE']]), st, Dumper=getattr(yaml, dname), **opts)
        prefix_checks(write, docs, ctx, case, dname)


def run(spec, ctx):
    if spec['kind'] == 'boundary':
        boundary_cases(ctx)
        return
    r = random.Random(core.h64('C12', spec['seed'], spec['kind'], spec['shard']))
    fn = {'dump': dump_case, 'serialize': serialize_case, 'emit': emit_case}[spec['kind']]
    for i in range(spec['n']):
        fn(r, ctx, i)


def replay(case, ctx):
    ctx.case(core.h64(repr(case)), True)
    if case['level'] == 'boundary':
        boundary_case(ctx, case['marker_at'], case['second'], case['opts'], case['pad_root'])
        return
    only = (case['D'], case['L']) if case.get('D') and case.get('L') else None
    base = {k: case[k] for k in ('level', 'docs', 'opts', 'share') if k in case}
    if case['level'] == 'dump':
        check_dump(case['docs'], unjopts(case['opts']), ctx, base, only)
    elif case['level'] == 'serialize':
        check_serialize(case['docs'], unjopts(case['opts']), ctx, base, only)
    else:
        check_emit(case['docs'], case['opts'], ctx, base, only)


def summarize(agg, tier):
    st = agg['stats']
    out = {'prefix_checks': st.get('prefix_checks', 0), 'flush_segments_compared': st.get('flush_segments_compared', 0)}
    if not st.get('readbacks') or not st.get('prefix_checks'):
        out['_inconclusive'] = 'no read-back or no prefix comparison was executed'
    return out
