"""C03 - scanning / parsing / composing any input ends in a result or a YAMLError: no other exception,
no crash, no hang, error marks inside the input."""
import io
import itertools
import random
import re
import signal

import yaml

from .. import core, yamlapi
from ..gen import corpus, strings as S

ID = 'C03'
LEVEL = 'exploration'
LEVEL_TEXT = ('Exploration: every generated input is pushed through scan, parse and compose_all of both back-ends in worker '
              'subprocesses; the oracle is the outcome class (result / YAMLError / anything else), a logical step budget '
              '(sys.monitoring PY_START+JUMP events inside yaml code) for hangs, process death for crashes, and a range '
              'check of every error mark. Fixed families: every escape form and pair of u-escapes, directive forms, invalid UTF-8/UTF-16, '
              'long homogeneous runs (regular-expression backtracking), documents padded so that a break / multi-byte character / '
              'indicator ends a reader refill (as streams). A worker stuck inside one C call is ended by a heartbeat thread and the '
              'hang confirmed on the bread-crumbed input alone. One slice is enumerated completely: all strings over a 20-symbol indicator '
              'alphabet up to length 4 (quick) / 5 (thorough). Thorough adds an ASan+UBSan build of the glue, -X dev and '
              'valgrind memcheck passes over the C side.' + ' Runs of 1200 / 3000 of every unusual character (BOM, NEL, LS, PS, NBSP, tab, CR, astral, indicators) in one line and at the start of many lines are part of the fixed families.')
LEVEL_NOTE = ('Held on the inputs generated; nesting is kept below the recursion limit (excluded by the property). libyaml itself '
              'is a prebuilt library: only valgrind sees inside it. C-side hangs are decided by a repeated generous '
              'wall-clock limit on inputs < 8 KB.')
TECHNIQUE = 'runtime monitoring: outcome-class oracle + step-budget monitor + crash attribution, sanitizer builds (thorough)'
DESIGN_REF = 'DESIGN.md section 3, C03'
RULE = ('inputs: corpus prefixes, char/byte mutations of corpus files, invalid UTF-8/UTF-16 forms, every escape form, directive '
        'forms, bounded-exhaustive indicator strings, strings with controls/surrogates, stream deliveries; each input x '
        '{scan,parse,compose_all} x {Loader,CLoader}. A case is one input; non-trivial = its outcome under the Python loader is '
        'recorded and it is not the empty input; distinct by input hash')
ASSUMPTIONS = ['RecursionError on inputs with >= 150 opening indicators is out of scope (property text)',
               'C-side results describe yaml/_yaml.c + system libyaml 0.2.5']
SHARD_TIMEOUT = {'quick': 900, 'thorough': 4 * 3600}
OPS = ('scan', 'parse', 'compose_all')
INDIC = list('-?:,[]{}#&*!|>\'"%@`') + [' ', '\n', 'a']        # 22 symbols
EXH_ALPHA = list('-?:,[]{}#&*!|>\'"%') + [' ', '\n', 'a']      # 20 symbols (the exhaustive slice)


def plan(tier, seed):
    specs = []
    q = tier == 'quick'
    for i in range(10 if q else 14):
        specs.append({'kind': 'mut', 'shard': i, 'n': 5000 if q else 60000, 'cext': 'plain'})
    for i in range(4):
        specs.append({'kind': 'fixed', 'shard': i, 'of': 4, 'cext': 'plain'})
    nex = 6 if q else 28
    for i in range(nex):
        specs.append({'kind': 'exh', 'shard': i, 'of': nex, 'maxlen': 4 if q else 5, 'cext': 'plain'})
    if not q:
        for i in range(4):
            specs.append({'kind': 'mut', 'shard': 100 + i, 'n': 6000, 'cext': 'asan', 'conly': True})
        specs.append({'kind': 'fixed', 'shard': 1, 'cext': 'asan', 'conly': True})
        specs.append({'kind': 'mut', 'shard': 200, 'n': 4000, 'cext': 'plain', 'pyflags': ['-X', 'dev'], 'conly': True})
        for i in range(4):
            specs.append({'kind': 'mut', 'shard': 300 + i, 'n': 500, 'cext': 'plain', 'conly': True, 'env': {'PYTHONMALLOC': 'malloc'},
                          'wrap': ['valgrind', '-q', '--error-exitcode=97', '--suppressions=/dev/null', '--trace-children=no'],
                          'timeout_s': 3 * 3600, 'valgrind': True})
    for sp in specs:
        if not sp.get('wrap'):
            sp['case_limit_s'] = 75 if sp.get('cext') != 'asan' else 200        # a case takes milliseconds; the in-worker alarm is 60 s
    return specs


class CaseTimeout(BaseException):
    pass


def _alarm(signum, frame):
    raise CaseTimeout()


def n_open(data):
    if isinstance(data, bytes):
        return data.count(b'[') + data.count(b'{') + data.count(b'-') + data.count(b':') + data.count(b'?') + data.count(b'\x00[')
    return sum(data.count(c) for c in '[{-:?')


def limits(data, bname='py'):
    """(char_limit for marks, raw_limit for ReaderError.position)"""
    if isinstance(data, str):
        if bname == 'c':
            # the glue hands libyaml the UTF-8 encoding of a str: its reader positions are byte offsets in that
            return len(data), len(data.encode('utf-8', 'surrogatepass'))
        return len(data), len(data)
    raw = len(data)
    try:
        if data.startswith(b'\xff\xfe') or data.startswith(b'\xfe\xff'):
            return len(data.decode('utf-16')) + 1, raw
        return len(data.decode('utf-8')), raw
    except UnicodeDecodeError:
        return raw, raw


class Runner:
    def __init__(self, ctx, conly=False, step_monitor=True):
        self.ctx = ctx
        self.conly = conly
        self.steps = None
        if step_monitor and not conly:
            from ..mon import steps
            self.steps_mod = steps
            self.steps = steps.Steps()
        signal.signal(signal.SIGALRM, _alarm)
        self.backends = []
        if not conly:
            self.backends.append(('py', yaml.Loader))
        if yamlapi.HAVE_C:
            self.backends.append(('c', yaml.CLoader))
        self.max_ratio = 0.0

    def run_one(self, data, op, bname, loader, via_stream=False):
        """Returns (outcome tag, violation detail or None)."""
        src = data
        if via_stream:
            src = io.StringIO(data) if isinstance(data, str) else io.BytesIO(data)
        n = len(data)
        budget = 1500 * (n + 64)
        fn = getattr(yaml, op)
        signal.alarm(60)
        if self.steps and bname == 'py':
            self.steps.begin(budget)
        try:
            try:
                for _ in fn(src, Loader=loader):
                    pass
                out = 'ok'
                viol = None
            finally:
                signal.alarm(0)
                if self.steps and bname == 'py':
                    used = self.steps.end()
                    self.max_ratio = max(self.max_ratio, used / (n + 64))
        except yaml.YAMLError as e:
            out = type(e).__name__ + ':' + str(getattr(e, 'problem', None) or getattr(e, 'reason', ''))[:60]
            viol = self.check_marks(e, data, bname)
        except RecursionError as e:
            if n_open(data) < 150:
                out, viol = 'RecursionError', {'what': 'RecursionError on a shallow input', 'op': op, 'backend': bname}
            else:
                out, viol = 'RecursionError(deep, out of scope)', None
        except CaseTimeout:
            out, viol = 'timeout', {'what': 'case exceeded 60 s wall clock', 'op': op, 'backend': bname, 'hang_suspect': True}
        except BaseException as e:
            if self.steps and isinstance(e, self.steps_mod.BudgetExceeded):
                out, viol = 'budget', {'what': 'step budget exceeded (hang or super-linear blow-up): > %d events for %d units' % (budget, n),
                                       'op': op, 'backend': bname}
            elif isinstance(e, (KeyboardInterrupt, SystemExit, MemoryError)):
                raise
            else:
                out = 'NONYAML:' + type(e).__name__
                viol = {'what': 'non-YAML exception', 'exc': type(e).__name__, 'msg': str(e)[:200], 'op': op, 'backend': bname}
        return out, viol

    def check_marks(self, e, data, bname='py'):
        clim, rlim = limits(data, bname)
        for a in ('context_mark', 'problem_mark'):
            m = getattr(e, a, None)
            if m is not None:
                if not (0 <= m.index <= clim) or m.line < 0 or m.column < 0 or m.column > m.index or m.line > m.index:
                    return {'what': 'error mark outside the input', 'mark': a, 'index': m.index, 'line': m.line, 'column': m.column, 'limit': clim}
        if isinstance(e, yaml.reader.ReaderError):
            if not (0 <= e.position <= rlim):
                return {'what': 'ReaderError.position outside the input', 'position': e.position, 'limit': rlim}
        return None

    def case(self, data, cls, streams=False):
        ctx = self.ctx
        ctx.crumb({'data': data})
        first = True
        for bname, loader in self.backends:
            for op in OPS:
                for vs in ((False, True) if streams else (False,)):
                    out, viol = self.run_one(data, op, bname, loader, vs)
                    ctx.stat('runs')
                    if bname == 'py' and op == 'compose_all' and not vs:
                        ctx.stat('outcome_py:' + out)
                    if out.startswith('NONYAML') or viol:
                        ctx.stat('bad:%s:%s' % (bname, out))
                    if viol:
                        viol = dict(viol)
                        viol.update({'op': op, 'backend': bname, 'via_stream': vs, 'outcome': out})
                        ctx.violation({'data': data, 'op': op, 'backend': bname, 'via_stream': vs}, viol, classify(data, bname, viol))
        ctx.case(core.h64(data if isinstance(data, (bytes, str)) else repr(data)), len(data) > 0, [cls])
        if isinstance(data, str) and '&' in data and cls != 'probe':
            self.after_probe(data)

    def after_probe(self, data):
        """Every loader starts from nothing: right after an input that defined anchors (and perhaps failed half-way), a fresh
        loader must not know them - '*name' is an undefined alias and '&name x' is not a duplicate, with marks inside the probe."""
        ctx = self.ctx
        for name in re.findall(r'&([A-Za-z0-9_-]{1,20})', data)[:2]:
            for bname, loader in self.backends:
                for probe, want in (('*%s\n' % name, 'ComposerError'), ('&%s x\n' % name, 'ok')):
                    out, viol = self.run_one(probe, 'compose_all', bname, loader)
                    ctx.stat('after_probes')
                    if viol or not out.startswith(want):
                        v = dict(viol or {})
                        v.update({'what': v.get('what', 'a fresh loader sees state left by the previous input'), 'probe': probe, 'outcome': out, 'expected': want, 'backend': bname})
                        ctx.violation({'data': probe, 'after': data, 'backend': bname}, v, None)


def has_lone_surrogate(s):
    return isinstance(s, str) and any(0xD800 <= ord(c) <= 0xDFFF for c in s)


def classify(data, bname, viol):
    # F3: the LibYAML glue encodes str input with PyUnicode_AsUTF8String -> UnicodeEncodeError on lone surrogates
    if bname == 'c' and has_lone_surrogate(data) and viol.get('exc') == 'UnicodeEncodeError':
        return 'F3'
    return None


# ------------------------------------------------------------------------------------------------
def fixed_inputs():
    """Deterministic families: escapes, directives, encodings."""
    out = []
    # (4) escapes
    singles = [chr(c) for c in range(0x20, 0x7f)] + ['\n', '\t', S.NEL, chr(0xe9), '']
    for ch in singles:
        out.append(('"\\%s"' % ch, 'escape1'))
        out.append(('"a\\%sb"' % ch, 'escape1'))
    cps = [0, 0x7f, 0x80, 0xd7ff, 0xd800, 0xdfff, 0xe000, 0xfffe, 0xffff, 0x10000, 0x10ffff, 0x110000, 0x7fffffff, 0x80000000, 0xffffffff]
    for cp in cps:
        for fmt, w in (('x', 2), ('u', 4), ('U', 8)):
            h = ('%0' + str(w) + 'X') % (cp & (16 ** w - 1))
            out.append(('"\\%s%s"' % (fmt, h), 'escape_num'))
            out.append(('"\\%s%s' % (fmt, h), 'escape_num'))
            out.append(('k: "\\%s%s" # c' % (fmt, h.lower()), 'escape_num'))
            for cut in range(w):
                out.append(('"\\%s%s"' % (fmt, h[:cut]), 'escape_short'))
                out.append(('"\\%s%sG"' % (fmt, h[:cut]), 'escape_nonhex'))
    # pairs of \\u escapes (surrogate halves in every combination, JSON style)
    for hi in ('D800', 'D83D', 'DBFF', 'DC00', 'DFFF', '0041'):
        for lo in ('0041', 'DC00', 'DE00', 'DFFF', 'D800', 'FFFF', '0000'):
            out.append(('"\\u%s\\u%s"' % (hi, lo), 'escape_pair'))
            out.append(('k: "a\\u%s\\u%sb" # c' % (hi, lo), 'escape_pair'))
    # long homogeneous runs: where a resolver / scanner regular expression could backtrack for ever
    for n in (30, 45, 64, 200, 2000):
        for unit in ('1', '0', '9', '1_', '_', '1:', ':1', '0x1', '0b1', 'e', '1e', '.1', '1.', '-', '+', '2001-', '0:0', 'a', ' ', '\t', '\n', '~', 'y', '.', '.inf', 't', 'T',
                     ':', '-1', '00'):
            for head, tail in (('', ''), ('- ', ''), ('k: ', ''), ('', 'x'), ('', ':'), ('', '.'), ('0', ''), ('2001-01-01 ', ''), ('1.', 'e'), ('0x', 'g')):
                if n >= 200 and (head or tail) and unit not in ('1', '0', '_', ':1'):
                    continue
                out.append((head + unit * n + tail, 'long_run'))
    # long runs of each unusual (but accepted) character, in a line and at the start of many lines: flat input, so neither
    # a RecursionError nor super-linear work is acceptable
    for ch in (S.BOM, S.NEL, S.LS, S.PS, S.NBSP, '\t', '\r', chr(0x1F600), chr(0xe9), '#', '!', '&a ', '*a ', '- ', '? ', ': ', ', ', '[] ', '{} ', "'' ", '"" ', '| ', '%'):
        for n in (1200, 3000):
            out.append((ch * n, 'long_run_odd'))
            out.append(('a\n' + ch * n + '\nb\n', 'long_run_odd'))
            out.append(((ch + '\n') * n, 'long_run_odd'))
            out.append(('- x\n' + (ch + ' # c\n') * n + '- y\n', 'long_run_odd'))
            out.append(('k: "' + (ch + '\n') * n + '"\n', 'long_run_odd'))
    # characters that Python's str predicates (isdigit, isdecimal, isalnum, isspace, int()) treat as digits / letters / blanks
    # and YAML does not, at every place where the grammar wants an ASCII digit, word character or blank
    pyc = [chr(0xb2), chr(0xb9), chr(0x2460), chr(0x2082), chr(0x663), chr(0xff12), chr(0x9ea), chr(0x2167), chr(0xbd), chr(0xaa), chr(0xb5), chr(0xff21), chr(0x3b1),
           chr(0x1d7d8), chr(0x2003), chr(0xa0), chr(0x3000), chr(0x1680)]
    for w in pyc:
        for tpl in ('|%s\n a', '>%s-\n a', '|-%s\n a', '|+%s\n a', 'k: |%s\n  a', '- >%s\n  a', '|%s%s\n a', '|1%s\n a', '%%YAML %s.1\n--- a', '%%YAML 1.%s\n--- a', '%%YAML 1%s.1\n--- a',
                    '%%TAG !%s! tag:x\n--- !%s!a b', '%%TAG !e%s! tag:x\n--- a', '!%s!a b', '&%s a', '*%s', '&a%s b', '- &%s a\n- *%s', '"\\x%s1"', '"\\x1%s"', '"\\u00%s1"', '"\\U0000004%s"',
                    '!a%%%s1 b', '!a%%4%s b', '!<%%%s1> a', '%%TAG !e! tag:%%%s1\n--- a', '%s', '- %s', '%s: %s', '2001-01-0%s', '1%s', '0x%s', '1.%s', '1:%s0', '%s1', '-%s', '[%s]', '{%s: %s}',
                    'a:%sb', '-%sa', '?%sa', 'a: b%s# c', '%%YAML%s1.1\n--- a', 'a%s: b'):
            out.append((tpl.replace('%s', w).replace('%%', '%'), 'pyclass'))
    out.append(('"\\U00110000"', 'escape_num'))
    out.append(('"\\UFFFFFFFF"', 'escape_num'))
    out.append(("'\\U00110000'", 'escape_num'))
    # (5) directives
    nums = ['1', '0', '2', '9', '10', '1' * 9, '1' * 10, '1' * 40, '1' * 5000, '', '-1', '+1', 'a', '1a', ' 1']
    for a in nums:
        for b in nums[:9] + ['', 'x']:
            out.append(('%%YAML %s.%s\n---\n' % (a, b), 'directive_yaml'))
    for t in ['%YAML', '%YAML ', '%YAML 1', '%YAML 1.', '%YAML 1.1', '%YAML 1.1 x\n---', '%YAML 1.1 # c\n--- a', '%YAML 1.1\n%YAML 1.1\n--- a',
              '%YAML 1.1\na', '%YAML\t1.1\n---', '%', '% ', '%\n', '%%', '%A', '%FOO bar baz\n--- a', '%FOO\n---', '%' + 'F' * 3000 + ' x\n---',
              '%TAG', '%TAG ', '%TAG !', '%TAG ! ', '%TAG ! !\n---', '%TAG !! tag:x\n--- !!a b', '%TAG !e! tag:e\n%TAG !e! tag:f\n---',
              '%TAG !e tag:e\n---', '%TAG e! tag:e\n---', '%TAG !e! \n---', '%TAG !e! tag:e x\n---', '%TAG !e! tag:%zz\n---', '%TAG !e! tag:%41\n--- !e!a b',
              '%TAG !e! tag:%c3%a9\n--- !e!a b', '%TAG !e! tag:%ff\n--- !e!a b', '%TAG !e! tag:%c3\n--- !e!a b', '%TAG !' + 'e' * 3000 + '! x\n---',
              '--- !e!a b', '--- !<> a', '--- !< a', '--- !<tag:x a', '--- !<%zz> a', '--- !<%ff> a', '--- !a%4 b', '--- !a%ff b', '--- !%c3%a9 b',
              '--- !!', '--- !', '--- !a!b!c d', '--- !a,b c', '--- &', '--- & a', '--- *', '--- &a*b c', '--- &a &b c', '--- !a !b c',
              '--- |2-3', '--- |0', '--- |10', '--- |-+', '--- >1x', '--- |\n\ta', '--- >\n \n  a\n b', '--- |' + '9' * 30, 'a: |1\n  b\n c',
              "--- '", '--- "', "--- 'a\n---\n'", '--- "a\n...\n"', "'a\n\n\nb'", '"a\\\n  b"', '"a\\', '"\\', "? ", "? a\n? b\n: c\n: d", '- - - a\n  - b\n-',
              '[', ']', '{', '}', '[a', '[a,', '[a,]', '[,]', '{a', '{a:', '{a:,}', '{,}', '[a]]', '{a}}', '[{]}', 'a: [\nb', 'a: {\n}', '- [a\n- b]',
              '\t', '\ta', 'a:\tb', '-\ta', 'a:\n\tb', '?\ta', '`a', '@a', 'a: `', 'a: @b', '\x00', 'a\x00b', '---\x00', S.BOM, S.BOM + 'a', 'a' + S.BOM, S.BOM + S.BOM,
              '--- a\n... b', '...', '... \n...', '---\n---\n---', '--- ---', '---a', '...a', 'a\n---b', 'a: b: c', 'a:\n- b\n c', ' a\nb', 'a\n b: c',
              'k' * 1023 + ': v', 'k' * 1024 + ': v', 'k' * 1025 + ': v', '"' + 'k' * 1030 + '": v', '[' + 'k' * 1030 + ': v]', '? ' + 'k' * 2000 + '\n: v',
              '*a', '&a *a', '&a [*a, *b]', '&a a\n--- *a', '&a x: &a y', '- &a\n- *a', '? &a\n: *a', '*a : b', '[*a : b]', '{*a}', '&' + 'a' * 3000 + ' b',
              '<<: a', '<<: [a]', '<<: *x', '= : =', '!!binary x', '!!int x', '!!set [a]', '!!omap {a: b}', '!!pairs a', '!!timestamp x']:
        out.append((t, 'directive_misc'))
    # (3) encodings
    enc = []
    for b in [b'\xc0\x80', b'\xc1\xbf', b'\xe0\x80\x80', b'\xf0\x80\x80\x80', b'\xc2', b'\xe2\x82', b'\xf0\x9f\x98', b'\x80', b'\xbf', b'\xf5\x80\x80\x80',
              b'\xf8\x88\x80\x80\x80', b'\xfe', b'\xff', b'\xed\xa0\x80', b'\xed\xbf\xbf', b'\xed\xa0\x80\xed\xb0\x80', b'\xf4\x90\x80\x80', b'\xef\xbf\xbe', b'\xef\xbf\xbf',
              b'\xef\xbb\xbf', b'\xef\xbb', b'\xef', b'\xff\xfe', b'\xfe\xff', b'\xff\xfea', b'\xfe\xffa', b'\xff\xfea\x00', b'\xff\xfe\x00\xd8', b'\xff\xfe\x00\xd8a\x00',
              b'\xff\xfe\x00\xdc', b'\xfe\xff\xd8\x00', b'\xfe\xff\xdc\x00\xd8\x00', b'\xff\xfe=\xd8\x00\xde', b'\xff\xfe\xff\xff', b'\xff\xfe\xfe\xff', b'\x00', b'\x00a', b'a\x00',
              b'\xff\xfe\x00\x00', b'\xff', b'\xfe', b'\xff\xfe\n\x00a', b'\xff\xfea\x00\n']:
        for pre, post in ((b'', b''), (b'a: ', b'\n'), (b'"', b'"'), (b'# ', b'\nb'), (b'- |\n  ', b'\n')):
            enc.append((pre + b + post, 'bytes_invalid'))
    for t in ['a: b\n', S.BOM + 'a', 'caf' + chr(0xe9), chr(0x1F600), 'a' + S.LS + 'b', '- ' + chr(0xffff), chr(0xd7ff) + chr(0xe000)]:
        for codec in ('utf-8', 'utf-8-sig', 'utf-16', 'utf-16-le', 'utf-16-be', 'utf-32', 'latin-1', 'utf-7'):
            try:
                enc.append((t.encode(codec), 'bytes_codec'))
            except UnicodeEncodeError:
                pass
    # (7) str with controls / surrogates / non-characters
    odd = []
    for c in list(range(0, 0x21)) + [0x7f, 0x80, 0x84, 0x85, 0x86, 0x9f, 0xa0, 0xd7ff, 0xd800, 0xdbff, 0xdc00, 0xdfff, 0xe000, 0xfffd, 0xfffe, 0xffff, 0x10000, 0x1fffe, 0x10ffff, 0xfeff, 0x2028, 0x2029]:
        ch = chr(c)
        for tpl in ('%s', 'a%sb', '"%s"', "'%s'", '# %s', '- |\n  %s\n', 'k%s: v', '&a%s b', '!t%s b', '%%YAML%s1.1\n---', '[a,%sb]', 'a\n%s\nb'):
            odd.append((tpl % ch, 'str_odd'))
    return out + enc + odd


def boundary_inputs():
    """Documents padded so that a CR, CR LF, NEL, a multi-byte character or an escape sits at the end of a reader refill
    (4096-unit reads; the first decode covers two of them).  Delivered as streams by the caller."""
    out = []
    tails = ['\r', '\r\n', '\n', chr(0x85), chr(0xe9), chr(0x1F600), '"\\', "'", ': ', '- ', '#', '\t', ' ', '\ufeff'.encode().decode() if False else chr(0xFEFF), '&a', '*a', '!t', '%', '---', '...']
    for boundary in (4096, 8192, 12288, 16384):
        for t in tails:
            for off in (0, 1, 2):
                pad = boundary - off - len(t)
                for body in ('# ' + 'p' * (pad - 3) + '\n', 'k: "' + 'v' * (pad - 4), "k: '" + 'v' * (pad - 4), 'v' * pad, '- |\n  ' + 'l' * (pad - 6)):
                    out.append(body[:pad] + t + '\nrest: 1\n')
    return out


def gen_mut(r):
    """One random hostile input; returns (data, class)."""
    files = corpus.files()
    c = r.random()
    name, raw = r.choice(files)
    if c < 0.2:
        cut = r.randrange(len(raw) + 1)
        return raw[:cut], 'prefix_bytes'
    if c < 0.3:
        t = raw.decode('utf-8', 'replace')
        return t[:r.randrange(len(t) + 1)], 'prefix_str'
    if c < 0.6:
        return corpus.mutate_text(r, raw.decode('utf-8', 'replace')), 'mut_text'
    if c < 0.72:
        return corpus.mutate_bytes(r, raw), 'mut_bytes'
    if c < 0.78:
        t = raw.decode('utf-8', 'replace')
        codec = r.choice(['utf-16', 'utf-16-le', 'utf-16-be', 'utf-8-sig'])
        b = t.encode(codec, 'replace')
        return corpus.mutate_bytes(r, b) if r.random() < 0.7 else b[:r.randrange(len(b) + 1)], 'mut_utf16'
    if c < 0.84:
        return bytes(r.randrange(256) for _ in range(r.randint(0, 40))), 'random_bytes'
    if c < 0.92:
        return ''.join(r.choice(corpus.ALPHA) for _ in range(r.randint(0, 30))), 'random_indicators'
    s, cls = S.gen(r, surrogates=True)
    if r.random() < 0.5:
        s = r.choice(['', '- ', 'k: ', '"', "'", '- |\n  ', '[', '? ']) + s
    return s, 'gstr:' + cls


def run(spec, ctx):
    rn = Runner(ctx, conly=spec.get('conly', False))
    if spec['kind'] == 'mut':
        r = random.Random(core.h64('C03', spec['seed'], spec['shard']))
        for i in range(spec['n']):
            data, cls = gen_mut(r)
            if i < 3:
                ctx.sample({'class': cls, 'data': data if len(data) < 300 else data[:300]})
            rn.case(data, cls, streams=(i % 7 == 0))
    elif spec['kind'] == 'fixed':
        of, sh = spec.get('of', 1), spec.get('shard', 0) % max(1, spec.get('of', 1))
        for i, (data, cls) in enumerate(fixed_inputs()):
            if i % of != sh:
                continue
            if i % 97 == 0:
                ctx.sample({'class': cls, 'data': data if len(data) < 200 else data[:200]})
            rn.case(data, cls, streams=(i % 5 == 0))
        for i, data in enumerate(boundary_inputs()):
            if i % of != sh:
                continue
            ctx.crumb({'data': data})
            for form in (data, data.encode('utf-8', 'surrogatepass')):
                for bname, loader in rn.backends:
                    for op in OPS:
                        out, viol = rn.run_one(form, op, bname, loader, True)
                        ctx.stat('runs')
                        if viol:
                            viol = dict(viol)
                            viol.update({'op': op, 'backend': bname, 'via_stream': True, 'outcome': out})
                            ctx.violation({'data': form, 'op': op, 'backend': bname, 'via_stream': True}, viol, classify(form, bname, viol))
            ctx.case(core.h64(data), True, ['refill_boundary'])
        ctx.stat('fixed_families_complete')
    elif spec['kind'] == 'exh':
        k = 0
        for L in range(0, spec['maxlen'] + 1):
            for combo in itertools.product(EXH_ALPHA, repeat=L):
                if k % spec['of'] == spec['shard']:
                    rn.case(''.join(combo), 'exh_len%d' % L)
                k += 1
        ctx.sample({'class': 'exhaustive', 'alphabet': ''.join(EXH_ALPHA), 'maxlen': spec['maxlen']})
        ctx.stat('exhaustive_shards_done')
    ctx.statmax('max:steps_per_unit_x100', int(rn.max_ratio * 100))


def replay(case, ctx):
    rn = Runner(ctx, conly=ctx.spec.get('conly', False))
    data = case['data']
    if 'after' in case:
        ctx.case(core.h64(repr(case)), True)
        rn.case(case['after'], 'replay', streams=True)
    elif 'op' in case:
        loader = yaml.Loader if case['backend'] == 'py' else yaml.CLoader
        out, viol = rn.run_one(data, case['op'], case['backend'], loader, case.get('via_stream', False))
        ctx.case(core.h64(repr(case)), True)
        ctx.stat('runs')
        if viol:
            viol = dict(viol)
            viol.update({'outcome': out})
            ctx.violation(case, viol, classify(data, case['backend'], viol))
    else:
        rn.case(data, 'replay', streams=True)


def summarize(agg, tier):
    st = agg['stats']
    out = {'outcome_classes_seen_py': sorted(k[len('outcome_py:'):] for k in st if k.startswith('outcome_py:')),
           'exhaustive': False,
           'exhaustive_slice': 'all strings over %r up to length %d: complete iff exhaustive_shards_done == planned' % (''.join(EXH_ALPHA), 4 if tier == 'quick' else 5),
           'max_steps_per_input_unit': st.get('max:steps_per_unit_x100', 0) / 100.0}
    out['distinct_error_messages_reached'] = len(out['outcome_classes_seen_py'])
    if not st.get('runs'):
        out['_inconclusive'] = 'no scan/parse/compose run was executed'
    return out
