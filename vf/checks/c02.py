"""C02 - round trip through the safe dumpers and loaders (boundary oracle: ref.bisim)."""
import random
import re
import sys

import yaml

from .. import core, yamlapi
from ..gen import values as V, options as O, strings as S
from ..ref import bisim

ID = 'C02'
LEVEL = 'exploration'
RULE = ('G-val graph recipes (strings by class, ints, floats incl. specials/random bit patterns, bytes, date, datetime, '
        'bool, None, list/dict/set graphs with sharing and cycles) x random option points x {SafeDumper,CSafeDumper} x '
        '{SafeLoader,CSafeLoader}; a case is (recipe, options); non-trivial = contains a str or a container; distinct by '
        'hash of (recipe, options)')
ASSUMPTIONS = ['NaN is never a dict key or set member', 'generated ints stay below the interpreter\'s 4300-digit int<->str limit; ints on both sides of it are probed separately (known finding F24)',
               'no lone surrogates in strings (outside the property\'s universe: Unicode scalar values)']
LEVEL_TEXT = ('Exploration: a type-strict, identity-aware graph comparison (ref.bisim) decides every executed dump->load '
              'round trip of generated values under generated option points, for all four dumper/loader back-end pairs. '
              'Held means: no discrepancy on the K executions of this run; the universal quantifier is sampled.')
LEVEL_NOTE = ('Trusted: the generator reaches the hostile string/option/nesting triples (class histogram in the evidence), '
              'ref.bisim, and that the rebuilt glue from yaml/_yaml.c + system libyaml 0.2.5 is what users run.')
TECHNIQUE = 'runtime monitoring: boundary oracle (graph bisimulation) over generated dump/load executions, 4 back-end pairs'
DESIGN_REF = 'DESIGN.md section 3, C02'
PAIRS = [('SafeDumper', 'SafeLoader'), ('SafeDumper', 'CSafeLoader'), ('CSafeDumper', 'SafeLoader'), ('CSafeDumper', 'CSafeLoader')]


def plan(tier, seed):
    n = {'quick': 14, 'thorough': 28}[tier]
    per = {'quick': 2000, 'thorough': 60000}[tier]
    return [{'kind': 'gen', 'shard': i, 'n': per, 'cext': 'plain'} for i in range(n)]


def one(spec, opts, dname, lname):
    """Returns None if the round trip holds, else (detail dict, leaf_a, leaf_b, exc)."""
    v = V.build(spec)
    try:
        text = yaml.dump(v, Dumper=getattr(yaml, dname), **opts)
    except Exception as e:
        return {'stage': 'dump', 'exc': yamlapi.exc_sig(e)}, None, None, e
    try:
        v2 = yaml.load(text, Loader=getattr(yaml, lname))
    except Exception as e:
        return {'stage': 'load', 'exc': yamlapi.exc_sig(e), 'text': text[:2000]}, None, None, e
    msg, la, lb = bisim.diff_ex(v, v2, ordered=(opts.get('sort_keys') is False))
    if msg:
        return {'stage': 'compare', 'diff': msg[:500], 'text': text[:2000]}, la, lb, None
    return None


def f7c_symptom(la, lb):
    """libyaml's folded writer broke a more-indented (leading-space) line.  What a YAML scanner then reads is modelled
    exactly: the FIRST fold inside such a line comes back as a line break (the head is still more-indented, so the break
    after it is kept); later folds of the same line are between ordinary lines and fold back to spaces; and the break run
    that ended the line now follows an ordinary line, so if the next line is ordinary too its first '\n' is folded away
    (a single '\n' becomes a space, k breaks become k-1).  Nothing else may differ."""
    if not (isinstance(la, str) and isinstance(lb, str)):
        return False
    segs = re.split('([\n' + chr(0x85) + chr(0x2028) + chr(0x2029) + ']+)', la)       # lines at even, break runs at odd positions
    j = fwd = 0
    for idx in range(0, len(segs), 2):
        line = segs[idx]
        run = segs[idx + 1] if idx + 1 < len(segs) else ''
        nxt = segs[idx + 2] if idx + 2 < len(segs) else None
        got = lb[j:j + len(line)]
        if len(got) != len(line):
            return False
        diff = [k for k in range(len(line)) if line[k] != got[k]]
        broken = False
        if diff:
            if not line.startswith(' ') or len(diff) != 1 or line[diff[0]] != ' ' or got[diff[0]] != '\n':
                return False
            broken = True
            fwd += 1
        j += len(line)
        exp = run
        if broken and run[:1] == '\n' and nxt and nxt[0] not in ' \t':
            exp = ' ' if len(run) == 1 else run[1:]
        if lb[j:j + len(exp)] != exp:
            return False
        j += len(exp)
    return j == len(lb) and fwd > 0


def classify(spec, opts, dname, lname, res):
    """Propose the known mechanism(s) behind a failure ('A+B' when two are involved), or None."""
    detail, la, lb, exc = res
    # F11: datetime with a sub-minute UTC offset: confirmed by the counterfactual (offset rounded to the minute passes)
    if V.has_subminute_tz(spec):
        s2 = {'nodes': [list(n) for n in spec['nodes']], 'root': spec['root']}
        for n in s2['nodes']:
            if n[0] == 'dt' and n[1][7] is not None and n[1][7] % 60:
                n[1] = list(n[1])
                n[1][7] = n[1][7] - n[1][7] % 60
        res2 = one(s2, opts, dname, lname)
        if res2 is None:
            return 'F11'
        m2 = classify(s2, opts, dname, lname, res2)
        return 'F11+' + m2 if m2 else None
    # F7c: libyaml emitter folds inside a more-indented line of a folded scalar
    if dname.startswith('C') and opts.get('default_style') == '>' and f7c_symptom(la, lb):
        return 'F7c'
    # F24: an int beyond the interpreter's int <-> decimal text limit; confirmed by the counterfactual (limit lifted: holds)
    lim = sys.get_int_max_str_digits() if hasattr(sys, 'get_int_max_str_digits') else 0
    if lim and isinstance(exc, (ValueError, yaml.YAMLError)) and any(n[0] == 'i' and len(n[1].lstrip('-')) > lim for n in spec['nodes']):
        sys.set_int_max_str_digits(0)
        try:
            res2 = one(spec, opts, dname, lname)
        finally:
            sys.set_int_max_str_digits(lim)
        if res2 is None:
            return 'F24'
    return None


def styles_of(text, ctx):
    try:
        for t in yaml.scan(text, Loader=yaml.SafeLoader):
            if isinstance(t, yaml.ScalarToken):
                ctx.stat('emitted_style:' + (t.style or 'plain'))
    except Exception:
        pass


def do_case(spec, opts, ctx, pairs=PAIRS):
    for dname, lname in pairs:
        if (dname.startswith('C') or lname.startswith('C')) and not yamlapi.HAVE_C:
            ctx.stat('skipped_no_c')
            continue
        ctx.crumb({'spec': spec, 'opts': O.jsonable(opts), 'D': dname, 'L': lname})
        res = one(spec, opts, dname, lname)
        ctx.stat('roundtrips')
        if res is not None:
            mech = classify(spec, opts, dname, lname, res)
            d = dict(res[0])
            d['leaf_a'], d['leaf_b'] = res[1], res[2]
            ctx.violation({'spec': spec, 'opts': O.jsonable(opts), 'D': dname, 'L': lname}, d, mech)


def huge_ints(ctx):
    """ints on both sides of the interpreter's int <-> decimal text limit (4300 digits by default)"""
    lim = sys.get_int_max_str_digits() if hasattr(sys, 'get_int_max_str_digits') else 0
    if not lim:
        ctx.stat('no_int_text_limit')
        return
    for digits in (lim - 1, lim, lim + 1, 2 * lim):
        for sign in ('', '-'):
            for shape in range(3):
                i = ['i', sign + '7' * digits]
                vs = [{'nodes': [i], 'root': 0}, {'nodes': [['list', [1, 2]], i, ['s', 'x']], 'root': 0}, {'nodes': [['dict', [[1, 2]]], i, ['s', 'v']], 'root': 0}][shape]
                ctx.case(core.h64('hugeint', digits, sign, shape), True, ['huge_int:' + ('over' if digits > lim else 'within')])
                do_case(vs, {}, ctx)


def run(spec, ctx):
    r = random.Random(core.h64('C02', spec['seed'], spec['shard']))
    if spec['shard'] == 0:
        huge_ints(ctx)
    for i in range(spec['n']):
        vs, classes = V.gen_spec(r)
        opts = O.gen(r)
        nontrivial = any(c.startswith('str') or c.startswith('root_') for c in classes)
        ctx.case(core.h64(repr(vs), repr(sorted(opts.items(), key=str))), nontrivial, classes)
        for k, v in opts.items():
            ctx.stat('opt:%s=%r' % (k, v))
        ctx.sample({'spec': vs, 'opts': O.jsonable(opts)})
        do_case(vs, opts, ctx)
        if i % 8 == 0:
            try:
                o2 = {k: v for k, v in opts.items() if k != 'encoding'}
                styles_of(yaml.dump(V.build(vs), Dumper=yaml.SafeDumper, **o2), ctx)
            except Exception:
                pass


def replay(case, ctx):
    opts = O.unjson(case['opts'])
    ctx.case(core.h64(repr(case)), True)
    do_case(case['spec'], opts, ctx, pairs=[(case['D'], case['L'])])


def summarize(agg, tier):
    st = agg['stats']
    out = {'pairs': PAIRS}
    if not st.get('roundtrips'):
        out['_inconclusive'] = 'no round trip was executed'
    return out
