"""C13 - aliases mean identity, anchors obey the document rules.  Identity classes of the loaded graph are
compared with those of the composed node graph and with the alias structure the generator put in."""
import random

import yaml

from .. import core, yamlapi
from ..gen import gdoc
from ..gen.gdoc import S, Q, M, A, Doc, CORE

ID = 'C13'
LEVEL = 'exploration'
LEVEL_TEXT = ('Exploration: documents are rendered (block and flow, G-doc renderer) from random graph specifications over lists, dicts, '
              '!!set, !!omap, !!pairs, python/tuple and python/object nodes with anchors on any node and aliases anywhere later: as '
              'items, values, omap/pairs keys and values, set members and mapping keys (scalars), to closed nodes and to enclosing '
              '(still open) nodes, with the same anchor name reused in the next document. For every document an identity monitor '
              'walks model, composed node graph and loaded object graph together: an alias in the model must be the identical node, '
              'one node must map to one object and distinct container nodes to distinct objects (Safe/Full/Unsafe loaders, both '
              'back-ends); forward and cross-document aliases and duplicate anchors on scalar, sequence and mapping nodes must end '
              'in ComposerError; a container as its own (or any) mapping key and a cycle running only through python/tuple nodes must '
              'end in ConstructorError - never RecursionError, a hang or a silently different graph.' + ' YAMLObject nodes exist for every loader level, and mapping keys may be constructed objects that refer to themselves directly or through a list (the identity walk follows keys, too).')
LEVEL_NOTE = ('Held on the documents generated. Scalars are exempt from the identity comparison (CPython may intern them), empty tuples '
              'likewise.')
TECHNIQUE = 'runtime monitoring: identity-relation monitor over simultaneous walks of generator model, composed node graph and constructed objects'
DESIGN_REF = 'DESIGN.md section 3, C13'
RULE = ('a case is one document (model + rendering) x loader; non-trivial = it contains at least one alias to a container or a planted '
        'anchor-rule violation; distinct by text hash')
ASSUMPTIONS = ['mapping keys in identity documents are pairwise distinct scalars and there are no merge keys (C14 covers those), so the i-th pair of a mapping node is the i-th item of the dict']
PY = CORE + 'python/'


class Box:
    """Plain instance (no __setstate__): state filled in the second construction phase."""
    pass


class BoxS:
    """Instance with __setstate__: its state mapping is built in deep mode."""

    def __setstate__(self, state):
        self.__dict__.update(state)


class BoxSlots:
    """Instance without __dict__ (slots only): its state is set attribute by attribute in the second phase, like Box's."""
    __slots__ = ('attr0', 'attr1', 'attr2', 'attr3')


BOXSLOTSTAG = PY + 'object:vf.checks.c13.BoxSlots'
BOXTAG = PY + 'object:vf.checks.c13.Box'
BOXSTAG = PY + 'object:vf.checks.c13.BoxS'


class YBox(yaml.YAMLObject):
    """A YAMLObject (two-phase construction through from_yaml) known to the full and unsafe loaders of both back-ends."""
    yaml_tag = '!ybox'
    yaml_loader = [getattr(yaml, n) for n in ('FullLoader', 'UnsafeLoader', 'CFullLoader', 'CUnsafeLoader') if hasattr(yaml, n)]


class YSafe(yaml.YAMLObject):
    """The same for the safe loaders (registered in this worker process only)."""
    yaml_tag = '!ysafe'
    yaml_loader = [getattr(yaml, n) for n in ('SafeLoader', 'CSafeLoader') if hasattr(yaml, n)]


OBJ_CLASSES = {BOXSLOTSTAG: BoxSlots, BOXTAG: Box, BOXSTAG: BoxS, '!ybox': YBox, '!ysafe': YSafe}
LEVELS = {'safe': ['SafeLoader', 'CSafeLoader'], 'full': ['FullLoader', 'CFullLoader'], 'unsafe': ['UnsafeLoader', 'CUnsafeLoader']}


def plan(tier, seed):
    q = tier == 'quick'
    specs = [{'kind': 'identity', 'shard': i, 'n': 6000 if q else 60000, 'cext': 'plain'} for i in range(10 if q else 14)]
    specs += [{'kind': 'rules', 'shard': i, 'n': 6000 if q else 60000, 'cext': 'plain'} for i in range(3 if q else 6)]
    return specs


# ---------------------------------------------------------------------------------------------
class GraphGen:
    """Random model; self.expect is 'ok' or 'ConstructorError' (a cycle that cannot be built)."""

    def __init__(self, r, level):
        self.r = r
        self.level = level            # 'safe' | 'full' | 'unsafe'
        self.n = 0
        self.nk = 0
        self.closed = []              # (name, kind, model node)
        self.open = []                # stack of (name, kind)
        self.expect = 'ok'
        self.nalias = 0
        self.classes = set()
        self.pure = {}                # anchor name -> the anchored subtree contains no alias
        self.deep = 0                 # inside the state of a BoxS (deep construction): no anchors, aliases to closed nodes only

    def name(self):
        self.n += 1
        return self.r.choice(['a', 'anc', 'x-', 'A_']) + str(self.n)

    def key(self):
        self.nk += 1
        style = self.r.choice(['plain', 'plain', 'single', 'double'])
        return S('k%d' % self.nk, style)

    def scalar(self):
        r = self.r
        v = r.choice(['v', '1', 'true', '~', 'two words', '2001-01-01', '', 'x y z', '0.5'])
        style = r.choice(['plain', 'plain', 'single', 'double'])
        if v == '' and style == 'plain':
            style = 'single'
        s = S(v, style)
        if r.random() < 0.15 and not self.deep:
            s.anchor = self.name()
            s.value = 'anchored ' + s.anchor      # unique value: aliased as keys, two of them never collide
            if s.style == 'plain' and s.value.startswith('x-'):
                s.style = 'single'
            self.closed.append((s.anchor, 'scalar', s))
        return s

    def alias(self, hashable_only=False):
        """An alias to a closed or open anchor, or None."""
        r = self.r
        cands = [(n, k, 'closed') for n, k, _ in self.closed]
        if self.deep:
            # deep construction builds an aliased node to the end before recording it: only alias-free (tree-shaped) targets are
            # certain to be constructible there whatever the construction order (cf. known finding F20)
            cands = [c for c in cands if c[1] == 'scalar' or self.pure.get(c[0])]
        if not hashable_only and not self.deep:
            cands += [(n, k, 'open') for n, k in self.open]
        if hashable_only:
            cands = [c for c in cands if c[1] == 'scalar']
        if not cands:
            return None
        n, k, st = r.choice(cands)
        self.nalias += 1
        if k != 'scalar':
            self.classes.add('alias_to_' + k)
        if st == 'open':
            self.classes.add('recursive:' + k)
            # unconstructable iff every node from the target down to here is single-phase (python/tuple)
            idx = [i for i, (nn, kk) in enumerate(self.path) if nn == n][-1]
            if all(kk == 'tuple' for nn, kk in self.path[idx:]):
                self.expect = 'ConstructorError'
                self.classes.add('recursive_through_tuple_only')
        return A(n)

    def node(self, depth):
        r = self.r
        c = r.random()
        if c < 0.22:
            a = self.alias()
            if a is not None:
                return a
        if depth >= 4 or c < 0.5:
            return self.scalar()
        kinds = ['list', 'list', 'dict', 'dict', 'set', 'omap', 'pairs', 'ybox']
        if self.level in ('full', 'unsafe'):
            kinds += ['tuple', 'tuple']
        if self.level == 'unsafe':
            kinds += ['box', 'box', 'boxslots']
            if not self.deep:
                kinds += ['boxs']
        kind = r.choice(kinds)
        anchor = self.name() if (r.random() < 0.45 and not self.deep) else None
        aliases_before = self.nalias
        flow = r.random() < 0.4
        if kind == 'boxs':
            self.deep += 1
            self.classes.add('deep_state')
        if not hasattr(self, 'path'):
            self.path = []
        self.path.append((anchor, kind))
        if anchor:
            self.open.append((anchor, kind))
        n = r.choice([0, 1, 2, 2, 3, 4])
        if kind == 'list':
            m = Q([self.node(depth + 1) for _ in range(n)], flow, None, anchor)
        elif kind == 'tuple':
            m = Q([self.node(depth + 1) for _ in range(n)], flow, PY + 'tuple', anchor)
        elif kind == 'dict':
            used = set()
            m = M([(self.keynode(used), self.node(depth + 1)) for _ in range(n)], flow, None, anchor)
        elif kind == 'box':
            m = M([(S('attr%d' % i, 'plain'), self.node(depth + 1)) for i in range(n)], flow, BOXTAG, anchor)
        elif kind == 'boxslots':
            m = M([(S('attr%d' % i, 'plain'), self.node(depth + 1)) for i in range(min(n, 4))], flow, BOXSLOTSTAG, anchor)
        elif kind == 'ybox':
            m = M([(S('attr%d' % i, 'plain'), self.node(depth + 1)) for i in range(n)], flow, '!ysafe' if self.level == 'safe' else '!ybox', anchor)
        elif kind == 'boxs':
            m = M([(S('attr%d' % i, 'plain'), self.node(depth + 1)) for i in range(max(n, 1))], flow, BOXSTAG, anchor)
            self.deep -= 1
        elif kind == 'set':
            used = set()
            m = M([(self.keynode(used), S('null', 'plain')) for _ in range(n)], flow, CORE + 'set', anchor)
        else:
            items = []
            for _ in range(n):
                k = self.key() if (kind == 'omap' or r.random() < 0.6) else self.node(depth + 1)
                items.append(M([(k, self.node(depth + 1))], flow or r.random() < 0.5))
            m = Q(items, flow, CORE + kind, anchor)
        self.path.pop()
        if anchor:
            self.open.pop()
            self.closed.append((anchor, kind, m))
            self.pure[anchor] = (self.nalias == aliases_before)
        self.classes.add('kind:' + kind)
        return m

    def keynode(self, used=None):
        if self.r.random() < 0.07 and not self.deep:
            # a constructed object as a key: hashable by identity, built in two phases, so it may refer to itself
            # (directly, or through a list in its state) and to the mapping it is a key of
            anchor = self.name()
            tag = '!ysafe' if self.level == 'safe' else self.r.choice(['!ybox'] + ([BOXTAG] if self.level == 'unsafe' else []))
            self.classes.add('object_key')
            pairs = []
            for i in range(self.r.choice([0, 1, 1, 2])):
                c = self.r.random()
                if c < 0.4:
                    v = A(anchor)
                    self.nalias += 1
                    self.classes.add('recursive:object_key')
                elif c < 0.6:
                    v = Q([A(anchor)], True, None, None)
                    self.nalias += 1
                    self.classes.add('recursive:object_key')
                elif c < 0.8:
                    v = self.alias() or self.scalar()
                else:
                    v = self.scalar()
                pairs.append((S('attr%d' % i, 'plain'), v))
            m = M(pairs, True, tag, anchor)
            self.closed.append((anchor, 'ybox', m))
            self.pure[anchor] = False
            return m
        if self.r.random() < 0.12:
            a = self.alias(hashable_only=True)
            if a is not None and used is not None and a.name in used:
                a = None
            if a is not None:
                if used is not None:
                    used.add(a.name)
                # an aliased scalar key could collide with a literal key only by value: anchored scalars use the value pool, keys use k<n>
                return a
        return self.key()


def has_single_phase_cycle(root):
    """Is there a cycle that runs only through single-phase nodes (python/tuple)?  Decided on the finished model with
    aliases resolved: any path counts, not only the one along which an alias was generated (a tuple may be reached a
    second time through a later alias while it is still under construction)."""
    table = {}

    def collect(n):
        if isinstance(n, A):
            return
        if n.anchor:
            table[n.anchor] = n
        if isinstance(n, Q):
            for i in n.items:
                collect(i)
        elif isinstance(n, M):
            for k, v in n.pairs:
                collect(k)
                collect(v)
    collect(root)

    def is_tuple(n):
        return isinstance(n, Q) and n.tag == PY + 'tuple'

    def tuple_children(n):
        out = []
        for c in n.items:
            if isinstance(c, A):
                c = table.get(c.name)
            if c is not None and is_tuple(c):
                out.append(c)
        return out
    tuples = []

    def walk(n):
        if isinstance(n, A):
            return
        if is_tuple(n):
            tuples.append(n)
        if isinstance(n, Q):
            for i in n.items:
                walk(i)
        elif isinstance(n, M):
            for k, v in n.pairs:
                walk(k)
                walk(v)
    walk(root)
    color = {}

    def dfs(n):
        color[id(n)] = 1
        for c in tuple_children(n):
            st = color.get(id(c), 0)
            if st == 1 or (st == 0 and dfs(c)):
                return True
        color[id(n)] = 2
        return False
    return any(color.get(id(t), 0) == 0 and dfs(t) for t in tuples)


def fix_model(n):
    """gdoc's renderer wants block collections inside flow ones to be flow too."""
    def rec(x, inflow):
        if isinstance(x, Q):
            x.flow = x.flow or inflow
            for i in x.items:
                rec(i, x.flow)
        elif isinstance(x, M):
            x.flow = x.flow or inflow
            for k, v in x.pairs:
                rec(k, True)             # keys are rendered inline
                rec(v, x.flow)
    rec(n, False)
    return n


def render(docs, r):
    return gdoc.Render(r, r.choice(['\n', '\n', '\r\n']), comments=r.random() < 0.3).stream(docs)[0]


# ---------------------------------------------------------------------------------------------
# the identity monitor

class Mismatch(Exception):
    pass


def walk_model_nodes(model, node, table, seen):
    """Model alias <-> identical composed node."""
    if isinstance(model, A):
        if model.name not in table:
            raise Mismatch('alias *%s has no anchored node before it in the model walk' % model.name)
        if table[model.name] is not node:
            raise Mismatch('alias *%s is not the node anchored &%s' % (model.name, model.name))
        return
    if id(node) in seen:
        raise Mismatch('a node that is not an alias in the document appears twice in the composed graph')
    seen.add(id(node))
    if model.anchor:
        table[model.anchor] = node
    if isinstance(model, S):
        if not isinstance(node, yaml.ScalarNode) or node.value != model.value:
            raise Mismatch('scalar node differs from the model: %r' % (getattr(node, 'value', None),))
    elif isinstance(model, Q):
        if not isinstance(node, yaml.SequenceNode) or len(node.value) != len(model.items):
            raise Mismatch('sequence node differs from the model')
        for m, c in zip(model.items, node.value):
            walk_model_nodes(m, c, table, seen)
    else:
        if not isinstance(node, yaml.MappingNode) or len(node.value) != len(model.pairs):
            raise Mismatch('mapping node differs from the model')
        for (mk, mv), (ck, cv) in zip(model.pairs, node.value):
            walk_model_nodes(mk, ck, table, seen)
            walk_model_nodes(mv, cv, table, seen)


CONTAINERS = (list, dict, set, Box, BoxS, BoxSlots, YBox, YSafe)


def walk_nodes_objects(node, obj, n2o, o2n, visited):
    """node -> object must be a function, injective on containers."""
    if isinstance(node, yaml.ScalarNode):
        return
    nid = id(node)
    if nid in n2o:
        if n2o[nid][0] is not obj:
            raise Mismatch('one node (%s at line %d) was built into two different objects' % (node.tag, node.start_mark.line + 1))
    else:
        n2o[nid] = (obj, node)
        if isinstance(obj, CONTAINERS) or (isinstance(obj, tuple) and len(obj) > 0):
            oid = id(obj)
            if oid in o2n and o2n[oid] is not node:
                raise Mismatch('two different nodes (lines %d and %d) were built into one object' % (o2n[oid].start_mark.line + 1, node.start_mark.line + 1))
            o2n[oid] = node
    if nid in visited:
        return
    visited.add(nid)
    tag = node.tag
    if isinstance(node, yaml.SequenceNode):
        if tag in (CORE + 'omap', CORE + 'pairs'):
            if not isinstance(obj, list) or len(obj) != len(node.value):
                raise Mismatch('%s node built into %s of another length' % (tag, type(obj).__name__))
            for sub, t in zip(node.value, obj):
                if not (isinstance(t, tuple) and len(t) == 2):
                    raise Mismatch('omap/pairs item is not a 2-tuple')
                kn, vn = sub.value[0]
                walk_nodes_objects(kn, t[0], n2o, o2n, visited)
                walk_nodes_objects(vn, t[1], n2o, o2n, visited)
        else:
            want = tuple if tag == PY + 'tuple' else list
            if type(obj) is not want or len(obj) != len(node.value):
                raise Mismatch('sequence node (%s) built into %s of length %s' % (tag, type(obj).__name__, len(obj) if hasattr(obj, '__len__') else '?'))
            for c, o in zip(node.value, obj):
                walk_nodes_objects(c, o, n2o, o2n, visited)
    elif isinstance(node, yaml.MappingNode):
        if tag == CORE + 'set':
            if type(obj) is not set or len(obj) != len(node.value):
                raise Mismatch('!!set node built into %s' % type(obj).__name__)
            return
        if tag in OBJ_CLASSES:
            if type(obj) is not OBJ_CLASSES[tag]:
                raise Mismatch('object node (%s) built into %s' % (tag, type(obj).__name__))
            d = obj.__dict__ if hasattr(obj, '__dict__') else {k: getattr(obj, k) for k in type(obj).__slots__ if hasattr(obj, k)}
        else:
            if type(obj) is not dict:
                raise Mismatch('mapping node built into %s' % type(obj).__name__)
            d = obj
        if len(d) != len(node.value):
            raise Mismatch('mapping node with %d pairs built into %d entries' % (len(node.value), len(d)))
        for (kn, vn), (k, v) in zip(node.value, d.items()):
            walk_nodes_objects(kn, k, n2o, o2n, visited)
            walk_nodes_objects(vn, v, n2o, o2n, visited)


def identity_case(r, ctx, i):
    level = r.choice(['safe', 'safe', 'full', 'unsafe'])
    docs, expects, classes, nal = [], [], set(), 0
    names_used = []
    for d in range(r.choice([1, 1, 2])):
        g = GraphGen(r, level)
        if names_used and r.random() < 0.7:
            g.n = 0                      # reuse the same anchor names in the next document
        root = g.node(0)
        if isinstance(root, A):
            root = g.scalar()
        docs.append(Doc(fix_model(root), None, r.random() < 0.3))
        expects.append('ConstructorError' if has_single_phase_cycle(root) else 'ok')
        if expects[-1] != g.expect:
            g.classes.add('cycle_through_second_path')
        classes |= g.classes
        nal += g.nalias
        names_used.append(g.n)
    text = render(docs, r)
    case = {'kind': 'identity', 'level': level, 'text': text, 'expects': expects}
    ctx.crumb(case)
    ctx.case(core.h64(text), any(c.startswith(('alias_to_', 'recursive')) for c in classes), sorted(classes) + ['level:' + level])
    if i < 2:
        ctx.sample({'level': level, 'text': text[:400]})
    check_identity(text, docs, expects, level, ctx, case)


def check_identity(text, docs, expects, level, ctx, case):
    for lname in yamlapi.loaders(LEVELS[level]):
        L = getattr(yaml, lname)
        who = dict(case, loader=lname)
        try:
            nodes = list(yaml.compose_all(text, Loader=L))
        except yaml.YAMLError as e:
            ctx.violation(who, {'what': 'valid document rejected by compose', 'exc': yamlapi.exc_sig(e)}, None)
            continue
        if docs is not None and len(nodes) != len(docs):
            ctx.violation(who, {'what': 'number of composed documents differs from the model'}, None)
            continue
        try:
            if docs is not None:
                for d, n in zip(docs, nodes):
                    walk_model_nodes(d.root, n, {}, set())
                ctx.stat('model_node_walks')
        except Mismatch as m:
            ctx.violation(who, {'what': 'composed node graph does not have the alias structure of the document', 'msg': str(m)}, None)
            continue
        objs = []
        err = None
        try:
            st, _ = core.guarded(lambda: objs.extend(yaml.load_all(text, Loader=L)), 10)
            if st == 'hang':
                ctx.hang(who, {'what': 'constructing the document did not finish within 10 s, twice (a case takes milliseconds): hang suspected'})
                continue
        except yaml.constructor.ConstructorError as e:
            err = e
        except yaml.YAMLError as e:
            ctx.violation(who, {'what': 'load failed with an unexpected YAML error', 'exc': yamlapi.exc_sig(e)}, None)
            continue
        except RecursionError:
            ctx.violation(who, {'what': 'RecursionError while constructing a document with aliases'}, None)
            continue
        except MemoryError:
            objs = None
            ctx.hang(who, {'what': 'memory limit of the worker exhausted while constructing a small document: unbounded construction'})
            continue
        except Exception as e:
            ctx.violation(who, {'what': 'non-YAML exception while constructing', 'exc': type(e).__name__, 'msg': str(e)[:200]}, None)
            continue
        ctx.stat('loads')
        first_bad = next((k for k, x in enumerate(expects) if x != 'ok'), None)
        if err is not None:
            if first_bad is None or len(objs) != first_bad:
                ctx.violation(who, {'what': 'constructible document rejected', 'exc': yamlapi.exc_sig(err), 'documents_before': len(objs)}, None)
            else:
                ctx.stat('unconstructable_cycle_rejected')
            continue
        if first_bad is not None:
            ctx.violation(who, {'what': 'a cycle that runs only through python/tuple nodes was accepted', 'document': first_bad}, None)
            continue
        try:
            for n, o in zip(nodes, objs):
                walk_nodes_objects(n, o, {}, {}, set())
            ctx.stat('identity_walks')
        except Mismatch as m:
            ctx.violation(who, {'what': 'object identity does not follow the anchors and aliases of the document', 'msg': str(m)}, None)


# ---------------------------------------------------------------------------------------------
# anchor rules

def rules_case(r, ctx, i):
    kind = r.choice(['forward', 'cross_document', 'duplicate', 'duplicate', 'self_key', 'container_key', 'tuple_cycle', 'alias_key_set', 'merge_self', 'merge_cycle'])
    if kind in ('merge_self', 'merge_cycle'):
        # a merge key that leads back to a mapping still being built: built or rejected with a constructor error, never a loop
        text = r.choice(['&a {k: v, <<: *a}\n', '&a\nk: v\n<<: *a\nz: 1\n', '- &a {<<: [*a, {x: 1}], y: 2}\n'] if kind == 'merge_self' else
                        ['top: &a {inner: &b {<<: *a}, <<: *b}\n', '&a {i: &b {j: &c {<<: [*a, *b]}, <<: *c}}\n', '- &a {x: &b {<<: *a, p: 1}, y: *b}\n'])
        case = {'kind': 'rules', 'rule': kind, 'level': 'safe', 'text': text, 'want': 'ok|ConstructorError'}
        ctx.crumb(case)
        ctx.case(core.h64(text), True, ['rule:' + kind])
        check_rule(text, kind, 'ok|ConstructorError', 'safe', ctx, case)
        return
    level = 'safe'
    nodekind = r.choice(['scalar', 'seq', 'map', 'set', 'omap'])

    def anchored(name, kind2):
        if kind2 == 'scalar':
            return S('v', r.choice(['plain', 'single', 'double', 'literal']) if False else r.choice(['plain', 'single', 'double']), None, name)
        if kind2 == 'seq':
            return Q([S('i', 'plain')] * r.randint(0, 2), r.random() < 0.5, None, name)
        if kind2 == 'map':
            return M([(S('k', 'plain'), S('v', 'plain'))][:r.randint(0, 1)], r.random() < 0.5, None, name)
        if kind2 == 'set':
            return M([(S('m', 'plain'), S('null', 'plain'))], r.random() < 0.5, CORE + 'set', name)
        return Q([M([(S('k', 'plain'), S('v', 'plain'))], True)], r.random() < 0.5, CORE + 'omap', name)

    def wrap(nodes):
        c = r.random()
        if c < 0.4:
            return Q(list(nodes), False)
        if c < 0.7:
            return M([(S('k%d' % j, 'plain'), n) for j, n in enumerate(nodes)], False)
        return Q([Q(list(nodes), True), S('tail', 'plain')], False)
    want = 'ComposerError'
    docs = []
    if kind == 'forward':
        docs = [Doc(wrap([A('fw'), anchored('fw', nodekind)]))]
    elif kind == 'cross_document':
        docs = [Doc(wrap([anchored('cd', nodekind), A('cd')])), Doc(wrap([S('x', 'plain'), A('cd')]))]
    elif kind == 'duplicate':
        k2 = r.choice(['scalar', 'seq', 'map', 'set', 'omap'])
        tail = [A('dup')] if r.random() < 0.5 else []
        mid = [S('between', 'plain')] if r.random() < 0.5 else []
        docs = [Doc(wrap([anchored('dup', nodekind)] + mid + [anchored('dup', k2)] + tail))]
    elif kind == 'self_key':
        want = 'ConstructorError'
        m = M([], r.random() < 0.5, None, 'sk')
        m.pairs = [(A('sk'), S('v', 'plain'))]
        if r.random() < 0.5:
            m.pairs.insert(0, (S('first', 'plain'), S('1', 'plain')))
        docs = [Doc(m if r.random() < 0.5 else wrap([m]))]
    elif kind == 'container_key':
        want = 'ConstructorError'
        target = anchored('ck', r.choice(['seq', 'map', 'set', 'omap']))
        holder = M([(A('ck'), S('v', 'plain'))], r.random() < 0.5) if r.random() < 0.6 else M([(A('ck'), S('null', 'plain'))], False, CORE + 'set')
        docs = [Doc(Q([target, holder], False))]
    elif kind == 'tuple_cycle':
        want = 'ConstructorError'
        level = r.choice(['full', 'unsafe'])
        t = Q([], True, PY + 'tuple', 'tc')
        inner = A('tc')
        for _ in range(r.randint(0, 2)):
            inner = Q([inner], True, PY + 'tuple')
        t.items = [S('x', 'plain'), inner]
        docs = [Doc(t if r.random() < 0.5 else wrap([t]))]
    else:
        # alias to a scalar as a set member / mapping key is fine: control case that must load
        want = 'ok'
        docs = [Doc(Q([anchored('sa', 'scalar'), M([(A('sa'), S('null', 'plain'))], False, CORE + 'set'), M([(A('sa'), S('v', 'plain'))], True)], False))]
    for d in docs:
        fix_model(d.root)
    text = render(docs, r)
    case = {'kind': 'rules', 'rule': kind, 'level': level, 'text': text, 'want': want}
    ctx.crumb(case)
    ctx.case(core.h64(text), True, ['rule:' + kind, 'on:' + nodekind])
    check_rule(text, kind, want, level, ctx, case, ndocs=len(docs))


def check_rule(text, kind, want, level, ctx, case, ndocs=1):
    names = LEVELS[level] if level != 'safe' else LEVELS['safe'] + LEVELS['full'] + LEVELS['unsafe']
    for lname in yamlapi.loaders(names):
        L = getattr(yaml, lname)
        for op in ('compose_all', 'load_all'):
            if want in ('ConstructorError', 'ok|ConstructorError') and op == 'compose_all':
                continue
            got = 'ok'
            n = 0
            try:
                cnt = []
                st, _ = core.guarded(lambda: [cnt.append(1) for _ in getattr(yaml, op)(text, Loader=L)], 10)
                n = len(cnt)
                if st == 'hang':
                    got = 'hang (10 s, twice)'
            except yaml.YAMLError as e:
                n = len(cnt)
                got = type(e).__name__
            except RecursionError:
                got = 'RecursionError'
            except MemoryError:
                got = 'MemoryError (unbounded construction)'
            except Exception as e:
                got = 'nonyaml:' + type(e).__name__
            ctx.stat('rule_probes')
            if got != want and not ('|' in want and got in want.split('|')):
                ctx.violation(dict(case, loader=lname, op=op), {'what': 'anchor rule not enforced as stated', 'rule': kind, 'got': got, 'want': want,
                                                                'documents_before': n}, None)
            elif kind == 'cross_document' and n != 1:
                ctx.violation(dict(case, loader=lname, op=op), {'what': 'cross-document alias: the first document was not delivered before the error', 'n': n}, None)


def volume_cases(ctx):
    """The rules hold for the 5000th alias as for the first: flat documents and long streams with many aliases and anchors."""
    texts = [('- &a [x]\n' + '- *a\n' * n, 1) for n in (600, 2500)]
    texts.append((''.join('- &a%d [x%d]\n- *a%d\n' % (i, i, i) for i in range(700)), 1))
    texts.append(('b: &b {x: 1}\n' + ''.join('k%d: *b\n' % i for i in range(800)), 1))
    texts.append(('---\n- &a {k: v}\n- *a\n- *a\n- [*a, {z: *a}]\n' * 250, 250))
    texts.append(('--- &r\n- *r\n- &s {me: *s, up: *r}\n- *s\n' * 200, 200))
    for text, nd in texts:
        case = {'kind': 'rules', 'rule': 'volume', 'level': 'safe', 'text': text, 'want': 'ok'}
        ctx.crumb({'kind': 'rules', 'rule': 'volume', 'len': len(text)})
        ctx.case(core.h64(text), True, ['rule:volume'])
        check_rule(text, 'volume', 'ok', 'safe', ctx, case, ndocs=nd)
        check_identity(text, None, ['ok'] * nd, 'safe', ctx, {'kind': 'identity', 'level': 'safe', 'text': text, 'expects': ['ok'] * nd})


def run(spec, ctx):
    r = random.Random(core.h64('C13', spec['seed'], spec['kind'], spec['shard']))
    if spec['kind'] == 'rules' and spec['shard'] == 0:
        volume_cases(ctx)
    for i in range(spec['n']):
        if spec['kind'] == 'identity':
            identity_case(r, ctx, i)
        else:
            rules_case(r, ctx, i)


def replay(case, ctx):
    ctx.case(core.h64(repr(case)), True)
    if case.get('kind') == 'rules':
        check_rule(case['text'], case['rule'], case['want'], case['level'], ctx, case)
    else:
        # without the model: node graph vs object graph only
        check_identity(case['text'], None, case['expects'], case['level'], ctx, case)


def summarize(agg, tier):
    st = agg['stats']
    out = {'identity_walks': st.get('identity_walks', 0), 'rule_probes': st.get('rule_probes', 0),
           'unconstructable_cycles_rejected': st.get('unconstructable_cycle_rejected', 0)}
    if not st.get('identity_walks') and not st.get('rule_probes'):
        out['_inconclusive'] = 'the identity monitor walked nothing'
    return out
