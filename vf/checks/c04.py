"""C04 - full loading never imports, calls or instantiates what a document names."""
import random
import sys

import yaml

from .. import core, yamlapi
from ..gen import tagdocs as TD
from ..mon import confine
from ..ref import bisim
from . import c01

ID = 'C04'
LEVEL = 'exploration'
LEVEL_TEXT = ('Exploration: the python/* tag vocabulary x 29 target names (resolvable, missing, empty, importable-but-unimported) x '
              'node kinds x 18 contexts x 4 spellings is loaded with FullLoader, CFullLoader and full_load under the C01 monitors '
              '(CALL events of yaml code, audit events, sys.modules, canary counters and attribute snapshots, package-state '
              'digest); the result oracle demands that python/name returns the identical pre-existing attribute of an already '
              'imported module or a ConstructorError, and that module/object/new/apply tags end in ConstructorError; the effective '
              'FullLoader tables are compared with the permitted repertoire.' + " Contexts include merged and duplicate entries that are constructed and then overwritten, and the value of (and entries beside) a '=' key.")
LEVEL_NOTE = 'Held on the documents generated; attribute lookup on an imported module is what the property allows (no PEP 562 canary).'
TECHNIQUE = 'runtime monitoring: sys.monitoring CALL events + audit hook + canaries + identity oracle over the python/* tag product'
DESIGN_REF = 'DESIGN.md section 3, C04'
RULE = ('documents: python/{none..dict} and python/{name,module,object,object/new,object/apply}:<29 names> x 5 node kinds x 18 contexts x '
        '4 spellings, sampled to budget with every tag x kind pair present, x FullLoader/CFullLoader/full_load x str/bytes. A case is one '
        'document; all are non-trivial (they carry a python/* tag); distinct by text hash')
ASSUMPTIONS = c01.ASSUMPTIONS
P = TD.P
FULL = ['FullLoader', 'CFullLoader']
ALLOWED_PY = {'none', 'bool', 'str', 'unicode', 'bytes', 'int', 'long', 'float', 'complex', 'list', 'tuple', 'dict'}
REJECT = ('module:', 'object:', 'object/new:', 'object/apply:')


def plan(tier, seed):
    q = tier == 'quick'
    n = 12 if q else 14
    return [{'kind': 'product', 'shard': i, 'of': n, 'sample': 0.12 if q else 1.0, 'cext': 'plain'} for i in range(n)]


def resolvable(name):
    """The property's rule: an existing attribute of an already imported module (or a builtin)."""
    if not name:
        return False, None
    if '.' in name:
        m, o = name.rsplit('.', 1)
    else:
        m, o = 'builtins', name
    mod = sys.modules.get(m)
    if mod is None or not o:
        return False, None
    try:
        if not hasattr(mod, o):
            return False, None
        return True, getattr(mod, o)
    except Exception:
        return False, None


def table_violations():
    out = []
    for n in yamlapi.loaders(FULL) + ['FullConstructor']:
        cls = getattr(yaml, n, None) or getattr(yaml.constructor, n)
        for k in cls.yaml_constructors:
            if k is None:
                continue
            ok = isinstance(k, str) and k.startswith(P) and (k[len(P):] in c01.CORE or (k[len(P):].startswith('python/') and k[len(P) + 7:] in ALLOWED_PY))
            if not ok:
                out.append((n, 'constructor registered for %r' % (k,)))
        for k in cls.yaml_multi_constructors:
            if k != P + 'python/name:':
                out.append((n, 'multi-constructor registered for prefix %r' % (k,)))
    return out


def contains_identity(obj, target):
    seen = set()
    stack = [obj]
    while stack:
        x = stack.pop()
        if x is target:
            return True
        if id(x) in seen:
            continue
        seen.add(id(x))
        if isinstance(x, (list, tuple, set, frozenset)):
            stack.extend(x)
        elif isinstance(x, dict):
            stack.extend(x.keys())
            stack.extend(x.values())
    return False


def same_failure(exc, untagged, lname, fn):
    try:
        list(yaml.load_all(untagged, Loader=getattr(yaml, lname))) if not fn else list(yaml.full_load_all(untagged))
    except Exception as e2:
        return type(e2) is type(exc) and str(e2) == str(exc)
    return False


def check_doc(h, tag, kind, info, text, untagged, ctx):
    case = {'text': text, 'info': dict(info, tag=tag, kind=kind, untagged=untagged)}
    ctx.crumb(case)
    suffix = tag[len(P) + 7:] if tag.startswith(P + 'python/') else None
    for i, lname in enumerate(h.loader_names + ['full_load_all']):
        fn = lname if '_load' in lname else None
        as_bytes = (i + len(text)) % 2 == 1
        data = text.encode('utf-8') if as_bytes else text
        snap = h.canary_snapshot()
        h.conf.begin()
        try:
            try:
                res = list(yaml.full_load_all(data)) if fn else list(yaml.load_all(data, Loader=getattr(yaml, lname)))
                st = 'ok'
            finally:
                flagged = h.conf.end()
        except yaml.YAMLError as e:
            st, res = 'yamlerror', e
        except RecursionError as e:
            st, res = 'recursion', e
        except Exception as e:
            st, res = 'other', e
        if h.canary_snapshot() != snap:
            flagged.append(('canary-mutated', 'attributes of the canary module/class/instance changed'))
        ctx.stat('loads')
        who = {'loader': lname, 'bytes': as_bytes}
        if flagged:
            ctx.violation(case, dict(who, what='confinement monitor fired', events=flagged[:6]), None)
        ctx.stat('outcome:' + (st if st != 'yamlerror' else type(res).__name__))
        if suffix is None:
            continue
        if suffix.startswith(REJECT):
            if st == 'ok':
                if info.get('merge_source') or info.get('value_key'):
                    try:
                        res2 = list(yaml.load_all(untagged, Loader=getattr(yaml, lname))) if not fn else list(yaml.full_load_all(untagged))
                        if bisim.diff(res, res2, ordered=True) is None and not flagged:
                            if info.get('value_key'):
                                ctx.violation(case, dict(who, what='object-construction tag on or beside the value of a "=" key under a scalar core tag is ignored, not rejected (no effect)'), 'F22')
                            else:
                                ctx.violation(case, dict(who, what='object-construction tag directly on a merge source is ignored, not rejected (no effect)'), 'F13')
                            continue
                    except Exception:
                        pass
                ctx.violation(case, dict(who, what='object-construction tag accepted by the full loader', result=repr(res)[:300]), None)
            elif st == 'yamlerror' and not isinstance(res, yaml.constructor.ConstructorError):
                ctx.violation(case, dict(who, what='object-construction tag rejected with another error class', exc=type(res).__name__), None)
            elif st == 'other' and info.get('value_key') and not flagged and same_failure(res, untagged, lname, fn):
                # F22: the tag is never looked at, so the document ends exactly like the same document without the tag
                ctx.violation(case, dict(who, what='object-construction tag on or beside the value of a "=" key under a scalar tag is ignored, not rejected (same failure as without the tag)',
                                         exc=type(res).__name__), 'F22')
            elif st == 'other':
                # the tag was not honoured, but the property asks for a constructor error
                ctx.violation(case, dict(who, what='object-construction tag ended in a non-YAML exception instead of a constructor error', exc=type(res).__name__, msg=str(res)[:200]), None)
            else:
                ctx.stat('rejected_constructor_error')
        elif suffix.startswith('name:'):
            name = suffix[5:]
            ok, target = resolvable(name)
            if st == 'ok':
                if info.get('merge_source') or info.get('value_key') or info.get('shadowed') or info.get('ctx') == 'set_value':
                    continue            # the value of a set entry is constructed and dropped: nothing to find in the result
                if not ok:
                    ctx.violation(case, dict(who, what='python/name resolved a name that is not an existing attribute of an imported module', result=repr(res)[:200]), None)
                elif not contains_identity(res, target):
                    ctx.violation(case, dict(who, what='python/name did not return the identical existing object', result=repr(res)[:200]), None)
                else:
                    bad = c01.walk_types(res, c01.PLAIN_TYPES + (tuple, complex), allow_tuple2=True, allowed_ids={id(target)})
                    if bad:
                        ctx.violation(case, dict(who, what='result contains a foreign object', obj=bad), None)
                    ctx.stat('name_resolved_identical')
            elif st == 'yamlerror':
                if not isinstance(res, yaml.constructor.ConstructorError):
                    ctx.violation(case, dict(who, what='python/name rejected with another error class', exc=type(res).__name__), None)
                elif ok and kind == 'scalar_empty' and info.get('ctx') in ('root', 'seq_item', 'map_value', 'depth3', 'second_doc', 'in_pytuple', 'in_pydict', 'in_omap'):
                    ctx.violation(case, dict(who, what='python/name of an existing attribute of an imported module was rejected', msg=str(res)[:200]), None)
                else:
                    ctx.stat('name_rejected')
            elif st == 'other':
                # not demanded by this property (C03/C14 own "only YAML errors"): evidence, not a verdict
                ctx.stat('nonyaml_exception_seen:' + type(res).__name__)
        else:
            if st == 'ok':
                bad = c01.walk_types(res, c01.PLAIN_TYPES + (tuple, complex), allow_tuple2=True)
                if bad:
                    ctx.violation(case, dict(who, what='result contains a foreign object', obj=bad), None)


PROBE_CONTEXTS = {'map_key', 'alias_key', 'in_set', 'omap_key', 'in_pairs', 'omap_key_among', 'omap_same_key_twice', 'pairs_same_key_twice', 'set_same_member_twice', 'map_key_among',
                  'in_pylist_key', 'in_pytuple', 'in_pydict', 'seq_item', 'map_value', 'in_omap'} | set(TD.TYPED_VALUE_KEY) | set(TD.TYPED_SEQ)


def docs(shard, of, sample, seed):
    r = random.Random(core.h64('C04prod', seed))
    k = 0
    for tag in TD.python_tags():
        for kind in TD.KINDS:
            must = True
            combos = [(c, s) for c in TD.FULL_CONTEXTS for s in TD.SPELLINGS]
            r.shuffle(combos)
            for c, s in combos:
                # the instrumented probe objects in every key / member / typed position are never left to sampling
                keep = must or r.random() < sample or (s == 'bangbang' and tag.endswith(('vf_canary.PROBE', 'vf_canary.UNHASHABLE')) and ':' in tag and c in PROBE_CONTEXTS)
                rr = TD.render(tag, kind, c, s) if keep else None
                if rr is None:
                    continue
                must = False
                if k % of == shard:
                    yield tag, kind, c, s, rr[0], dict(rr[1], ctx=c), TD.render('', kind, c, s)[0]
                k += 1


def selftest(h, ctx):
    ok = 0
    for doc in ('!!python/object/apply:vf_canary.canary_fn []', '!!python/object/new:vf_canary.Canary []', '!!python/object:vf_canary.Canary {a: 1}'):
        st, res, flagged = h.load(doc, 'UnsafeLoader')
        if st == 'ok' and {f[0] for f in flagged} & {'call', 'call-with-target', 'call-bound', 'canary'}:
            ok += 1
    ctx.stat('monitor_selftest_fired', ok)
    ctx.stat('monitor_selftest_expected', 3)


def run(spec, ctx):
    h = c01.Harness(ctx, FULL)
    selftest(h, ctx)
    for n, msg in table_violations():
        ctx.violation({'class': n, 'table': True}, {'what': 'FullLoader constructor tables exceed the permitted repertoire', 'msg': msg}, None)
    d0 = confine.state_digest()
    n = 0
    for tag, kind, c, s, text, info, un in docs(spec['shard'], spec['of'], spec['sample'], spec['seed']):
        ctx.case(core.h64(text), True, ['kind:' + kind, 'ctx:' + c, 'spell:' + s])
        if n < 3:
            ctx.sample({'tag': tag, 'kind': kind, 'context': c, 'spelling': s, 'text': text})
        n += 1
        check_doc(h, tag, kind, info, text, un, ctx)
    for n_, msg in table_violations():
        ctx.violation({'class': n_, 'table': True}, {'what': 'FullLoader constructor tables exceed the permitted repertoire (after the batch)', 'msg': msg}, None)
    diff = confine.digest_diff(d0, confine.state_digest())
    if diff:
        ctx.violation({'batch': 'product'}, {'what': 'library-global state changed during full loading', 'changed': diff[:10]}, None)
    ctx.stat('call_events', h.conf.ncalls)
    ctx.statmax('max:distinct_callees', len(h.conf.callees))
    core.rmtree(h.tmp)


def replay(case, ctx):
    h = c01.Harness(ctx, FULL)
    ctx.case(core.h64(repr(case)), True)
    if case.get('table'):
        for n, msg in table_violations():
            ctx.violation({'class': n, 'table': True}, {'what': 'FullLoader constructor tables exceed the permitted repertoire', 'msg': msg}, None)
        return
    info = case.get('info') or {}
    check_doc(h, info.get('tag', ''), info.get('kind', ''), info, case['text'], info.get('untagged', ''), ctx)
    ctx.stat('call_events', h.conf.ncalls)
    core.rmtree(h.tmp)


def summarize(agg, tier):
    return c01.summarize(agg, tier)
