"""C11 - every call and every document stands alone: results do not depend on the call history, no call changes
library-global state, documents of one stream are interpreted independently."""
import concurrent.futures
import io
import json
import os
import random
import subprocess
import sys

import yaml

from .. import core, yamlapi, sigs, cext
from ..gen import events as EV, shapes as SH
from ..mon import confine, streams
from ..ref import bisim

ID = 'C11'
_TMP = None
LEVEL = 'exploration'
LEVEL_TEXT = ('Exploration: a pool of API calls (scan/parse/compose(_all)/load(_all) x Base/Safe/Full/Unsafe loaders of both back-ends over '
              'valid documents, documents invalid at every pipeline stage, documents with %YAML/%TAG, anchors, recursion; '
              'dump(_all)/serialize/emit x dumpers over plain, recursive and object values) gets reference signatures from one '
              'fresh interpreter per call; random histories of 30-200 calls with interleaving (generator calls advanced item by '
              'item while other calls run, abandoned half-way, failed half-way by a stream fault) must reproduce every reference '
              'signature, and a deep digest of every module- and class-level container of the yaml package must be identical '
              'before and after every call. Streams concatenated from documents d1..dn must give exactly [load(d1), ..] (same '
              'for compose/parse, both back-ends); leak-bait documents that use an anchor, a %TAG handle or rely on a %YAML '
              'directive of the previous document must fail inside the stream exactly as they fail alone, after the earlier '
              'documents were delivered. Per-document reset hooks record internal leftovers as evidence.' + ' The stream documents include deep constructions (__setstate__ objects, apply arguments, an application YAMLObject) that meet already constructed nodes, followed by recursive documents, read through Safe, Unsafe and application loaders.')
LEVEL_NOTE = 'Held on the histories and streams generated.'
TECHNIQUE = 'runtime monitoring: history oracle (signatures from one fresh interpreter per call) + package-state digest monitor around every call + stream-vs-isolated-documents oracle'
DESIGN_REF = 'DESIGN.md section 3, C11'
RULE = ('a case is one history (30-200 interleaved calls) or one concatenated stream x op x loader; non-trivial = the history has a '
        'failing call and a call with directives/anchors, or the stream has at least two documents; distinct by hash of the '
        'history / stream')
ASSUMPTIONS = ['reference signatures are computed against the same sources and the same rebuilt glue as the histories']
E9 = chr(0xe9)

# ---------------------------------------------------------------------------------------------
# the pool

TEXTS = [
    'a: 1\nb: [x, y]\n', '- &a [1, 2]\n- *a\n', '&r [*r]\n', '&m {self: *m, k: v}\n', '%YAML 1.1\n--- a\n', '%TAG !e! tag:e.com,2000:\n--- !e!t x\n',
    '%TAG ! !my-\n--- !x y\n', '%TAG !! tag:other.org,2002:\n--- !!str z\n', '--- a\n--- b\n--- c\n', '--- &a x\n--- *a\n', '%TAG !e! tag:e.com,2000:\n--- !e!a x\n--- !e!b y\n',
    '--- !e!b y\n', '*undefined\n', '[&d 1, &d 2]\n', 'a: [1, 2\n', 'a: "unterminated\n', '@bad\n', '%YAML 2.0\n--- x\n', '%YAML 1.1\n%YAML 1.1\n--- x\n', '!unknown x\n',
    '!!int notanint\n', '{[a]: b}\n', '<<: x\n', 'k: v\n<<: {m: 1}\n', '!!set {a, b}\n', '!!omap [a: 1, b: 2]\n', '? [complex, key]\n: v\n', '- |\n  literal\n- >\n  folded\n  text\n',
    '"\\u263a \\x41"\n', 'caf' + E9 + ': ' + chr(0x4e2d) + '\n', '2001-12-14t21:59:43.10-05:00\n', '[1, 1.5, yes, ~, 0x1F, 1:30]\n', '', '---\n', '# only a comment\n',
    '!!python/tuple [1, 2]\n', '!!python/name:os.path.join\n', '!!python/object:vf.gen.shapes.Plain {a: 1}\n', '!!python/object/apply:os.getcwd []\n', 'x: &x !!python/tuple [*x]\n',
    '- !!binary aGk=\n- !!timestamp 2001-01-01\n', '{a: 1, a: 2}\n', 'a:\n  b:\n    c: [d, {e: f}]\n', '- - - deep\n', 'key: !!null\n', '--- >+\n keep\n\n...\n--- next\n']
BYTES = [b'a: b\n', b'\xff\xfea\x00:\x00 \x00b\x00\n\x00', b'\xef\xbb\xbfa: b\n', b'a: \xff\n', b'\x00', b'k: "\xc3\xa9"\n']


def _straddle():
    """UTF-8 bytes in which a two-byte character lies across every 4096-byte read boundary (inside comments), before the first
    document, between the documents and after the last one: a reader abandoned anywhere has an incomplete character pending."""
    out = b''
    for tail in (b'a: b\n', b'--- c\n', b'--- [d, e]\n', b''):
        out += b'#'
        if len(out) % 2 == 0:
            out += b' '
        out += (chr(0xe9) * 4300).encode('utf-8') + b'\n' + tail
    assert all(out[k - 1] == 0xc3 for k in range(4096, len(out), 4096)), 'no straddle'
    return out


BYTES.append(_straddle())
BYTES.append(b'k: "' + (chr(0x4e2d) * 3000).encode('utf-8') + b'"\n--- x\n')
LOADERS = ['BaseLoader', 'SafeLoader', 'FullLoader', 'UnsafeLoader', 'CBaseLoader', 'CSafeLoader', 'CFullLoader', 'CUnsafeLoader']
READ_OPS = ['scan', 'parse', 'compose', 'compose_all', 'load', 'load_all']


import re as _re


class AppLoader(yaml.SafeLoader):
    """An application loader with a wildcard implicit resolver (first=None), a per-character one, a path resolver and a constructor."""


AppLoader.add_implicit_resolver('!wild', _re.compile(r'^w[a-z]*$'), None)
AppLoader.add_implicit_resolver('!ver', _re.compile(r'^[0-9]+[.][0-9]+[.][0-9]+$'), list('0123456789'))
AppLoader.add_path_resolver('!pk', ['pk'], dict)
AppLoader.add_constructor('!wild', lambda l, n: ['wild', l.construct_scalar(n)])
AppLoader.add_constructor('!ver', lambda l, n: ['ver', l.construct_scalar(n)])
AppLoader.add_constructor('!pk', lambda l, n: ['pk', l.construct_mapping(n)])


class AppDumper(yaml.Dumper):
    pass


AppDumper.add_implicit_resolver('!wild', _re.compile(r'^w[a-z]*$'), None)
AppDumper.add_multi_representer(SH.Plain, lambda d, o: d.represent_mapping('!plain', sorted(o.__dict__.items())))
if getattr(yaml, '__with_libyaml__', False):
    class CAppLoader(yaml.CSafeLoader):
        pass
    CAppLoader.add_implicit_resolver('!wild', _re.compile(r'^w[a-z]*$'), None)
    CAppLoader.add_constructor('!wild', lambda l, n: ['wild', l.construct_scalar(n)])
class AppState(yaml.YAMLObject):
    """An application object whose state is built by deep construction (it defines __setstate__)."""
    yaml_tag = '!appstate'
    yaml_loader = [AppLoader] + ([CAppLoader] if getattr(yaml, '__with_libyaml__', False) else [])
    yaml_dumper = AppDumper

    def __setstate__(self, state):
        self.__dict__.update(state)
        self.restored = True


APP_TEXTS = ['- word\n- yes\n- 1.2.3\n- 12\n- ~\n- w\n', 'pk: {a: 1}\nq: wide\n', 'yes: no\n-1: 0x1F\n', 'w: [was, 2001-01-01, n, y, 1.5]\n']


class Rec:
    pass


def make_values():
    rec_l = []
    rec_l.append(rec_l)
    rec_d = {}
    rec_d['self'] = rec_d
    shared = [1, 2]
    p = SH.Plain(a=1, b='x')
    p2 = SH.Plain(a=[1], b=None)
    p2.me = p2
    return [None, 1, 'text', 'multi\nline\n', {'k': [1, 2.5, True, None]}, [shared, shared], rec_l, rec_d, {'a', 'b'}, b'bytes', 'caf' + E9, {1: 'a', 'b': 2},
            ['x' * 200], (1, 2), p, p2, SH.Color.RED, SH.MyList([1]), 1 + 2j, SH.func, [SH.StateDict(1, 2)]]


DUMP_VARIANTS = [('SafeDumper', {}), ('SafeDumper', {'default_flow_style': True, 'explicit_start': True}), ('SafeDumper', {'tags': {'!e!': 'tag:e.com,2000:'}, 'version': (1, 1)}),
                 ('CSafeDumper', {}), ('CSafeDumper', {'canonical': True}), ('Dumper', {}), ('Dumper', {'default_style': '"', 'width': 20}), ('CDumper', {}), ('CDumper', {'allow_unicode': True})]


def pool():
    """[(kind, args...)] deterministic."""
    out = []
    for ti, t in enumerate(TEXTS):
        for op in READ_OPS:
            for ln in LOADERS:
                # thin the product: every text x op with the Safe loaders, the rest by a fixed pattern
                if ln in ('SafeLoader', 'CSafeLoader') or (ti + len(op) + len(ln)) % 5 == 0:
                    out.append(('read', ti, op, ln, 'str'))
    for bi in range(len(BYTES)):
        for ln in ('SafeLoader', 'CSafeLoader'):
            out.append(('readb', bi, 'load_all', ln, 'bytes'))
            out.append(('readb', bi, 'scan', ln, 'stream'))
            if bi >= 6:
                # long byte streams: single-document calls that fail before the end is read, and item-wise calls (abandoned half-way in histories)
                out.append(('readb', bi, 'load', ln, 'stream'))
                out.append(('readb', bi, 'load_all', ln, 'stream'))
                out.append(('readb', bi, 'parse', ln, 'stream'))
                out.append(('readb', bi, 'compose', ln, 'stream'))
    nv = len(make_values())
    for vi in range(nv):
        for di, (dn, o) in enumerate(DUMP_VARIANTS):
            if dn.endswith('SafeDumper') and vi >= 13:
                if (vi + di) % 3:
                    continue
            out.append(('dump', vi, di))
    for ai in range(len(APP_TEXTS)):
        for op in ('load', 'compose', 'load_all'):
            out.append(('app', ai, op, 'AppLoader'))
            out.append(('app', ai, op, 'CAppLoader'))
    for vi in (2, 4, 8, 14, 15):
        out.append(('appdump', vi))
    for ti in (0, 1, 4, 5, 8, 27):
        for dn in ('Dumper', 'CDumper'):
            out.append(('reemit', ti, dn))
            out.append(('reserialize', ti, dn))
    return out


def have(call):
    names = [x for x in call if isinstance(x, str)]
    if call[0] == 'app' and call[3] == 'CAppLoader':
        return yamlapi.HAVE_C
    if call[0] == 'dump':
        names = [DUMP_VARIANTS[call[2]][0]]
    return yamlapi.HAVE_C or not any(n.startswith('C') and n[1:2].isupper() for n in names)


def exc_sig(e):
    d = {'cls': type(e).__name__}
    for a in ('context', 'problem', 'note'):
        if hasattr(e, a):
            d[a] = getattr(e, a)
    for a in ('context_mark', 'problem_mark'):
        m = getattr(e, a, None)
        if m is not None:
            d[a] = [m.index, m.line, m.column]
    if isinstance(e, yaml.reader.ReaderError):
        d.update({'position': e.position, 'reason': e.reason})
    if not isinstance(e, yaml.YAMLError):
        d['msg'] = str(e)[:120]
    return d


def item_sig(op, x):
    if op == 'scan':
        return list(sigs.tok_sig(x, marks=True))
    if op == 'parse':
        return list(sigs.ev_sig(x, marks=True))
    if op in ('compose', 'compose_all'):
        return sigs.node_sig(x, marks=True)
    return bisim.sig(x)


def start_call(call):
    """Returns a generator that yields item signatures and finally returns; exceptions propagate."""
    k = call[0]
    if k in ('read', 'readb'):
        _, i, op, ln, form = call
        data = TEXTS[i] if k == 'read' else BYTES[i]
        if form == 'stream':
            data = io.BytesIO(data) if isinstance(data, bytes) else io.StringIO(data)
        L = getattr(yaml, ln)
        if op in ('compose', 'load'):
            def g():
                yield item_sig(op, getattr(yaml, op)(data, Loader=L))
            return g()

        def g2():
            for x in getattr(yaml, op)(data, Loader=L):
                yield item_sig(op, x)
        return g2()
    if k == 'app':
        _, ai, op, ln = call
        L = globals()[ln]
        if op == 'load_all':
            def ga():
                for x in yaml.load_all(APP_TEXTS[ai], Loader=L):
                    yield item_sig(op, x)
            return ga()

        def gb():
            yield item_sig(op, getattr(yaml, op)(APP_TEXTS[ai], Loader=L))
        return gb()
    if k == 'appdump':
        def gc_():
            yield yaml.dump(make_values()[call[1]], Dumper=AppDumper)
        return gc_()
    if k == 'dump':
        _, vi, di = call
        dn, o = DUMP_VARIANTS[di]

        def g3():
            out = yaml.dump(make_values()[vi], Dumper=getattr(yaml, dn), **o)
            yield out if isinstance(out, str) else out.decode('latin-1')
        return g3()
    if k == 'reemit':
        _, ti, dn = call

        def g4():
            yield yaml.emit(yaml.parse(TEXTS[ti], Loader=yaml.Loader), Dumper=getattr(yaml, dn))
        return g4()
    _, ti, dn = call

    def g5():
        yield yaml.serialize_all(yaml.compose_all(TEXTS[ti], Loader=yaml.Loader), Dumper=getattr(yaml, dn))
    return g5()


def run_call(call):
    """Complete signature of one call: {'items': [...], 'exc': sig or None}"""
    items = []
    try:
        for s in start_call(call):
            items.append(s)
        return {'items': items, 'exc': None}
    except RecursionError:
        return {'items': items, 'exc': {'cls': 'RecursionError'}}
    except Exception as e:
        return {'items': items, 'exc': exc_sig(e)}


def canon(x):
    return json.loads(json.dumps(x, default=repr))


# ---------------------------------------------------------------------------------------------
# plan: reference signatures from one fresh interpreter per call

def plan(tier, seed):
    q = tier == 'quick'
    tmp = core.mktmp('vf_C11ref_')
    root, env_extra, note = cext.overlay(tmp, 'plain')
    pp = [core.VERIF, root or os.path.join(core.REPO, 'lib')]
    env = core.base_env(tmp, pythonpath=[pp[1]])
    calls = pool()

    def ref(i):
        p = subprocess.run([core.PY, '-m', 'vf.checks.c11', 'ref', str(i)], capture_output=True, text=True, env=env, cwd=core.VERIF, timeout=120)
        try:
            return json.loads(p.stdout)
        except ValueError:
            return {'harness_error': (p.stderr or p.stdout)[-300:]}
    with concurrent.futures.ThreadPoolExecutor(14) as ex:
        refs = list(ex.map(ref, range(len(calls))))
    path = os.path.join(tmp, 'refs.json')
    with open(path, 'w') as f:
        json.dump(refs, f)
    specs = [{'kind': 'histories', 'shard': i, 'n': 14 if q else 400, 'refs': path, 'pythonpath': [pp[1]], 'env': env_extra} for i in range(10 if q else 14)]
    specs += [{'kind': 'streams', 'shard': i, 'n': 1500 if q else 40000, 'pythonpath': [pp[1]], 'env': env_extra} for i in range(4)]
    global _TMP
    _TMP = tmp
    return specs


# ---------------------------------------------------------------------------------------------
class Hooks:
    """Per-document reset hooks: evidence only (a leftover marks the case as suspect, verdicts come from the boundary)."""

    def __init__(self, ctx):
        self.ctx = ctx
        self.wrap(yaml.composer.Composer, 'compose_document', lambda s: not getattr(s, 'anchors', None), 'composer.anchors')
        self.wrap(yaml.constructor.BaseConstructor, 'construct_document',
                  lambda s: not s.constructed_objects and not s.recursive_objects and not s.state_generators and s.deep_construct is False, 'constructor.caches')
        self.wrap(yaml.serializer.Serializer, 'serialize', lambda s: not s.serialized_nodes and not s.anchors and s.last_anchor_id == 0, 'serializer.tables')
        self.wrap(yaml.representer.BaseRepresenter, 'represent', lambda s: not s.represented_objects and not s.object_keeper and s.alias_key is None, 'representer.tables')
        self.wrap(yaml.parser.Parser, 'process_directives', lambda s: yaml.parser.Parser.DEFAULT_TAGS == {'!': '!', '!!': 'tag:yaml.org,2002:'}, 'parser.DEFAULT_TAGS')

    def wrap(self, cls, name, cond, label):
        orig = cls.__dict__.get(name)
        if orig is None:
            self.ctx.stat('hook_missing:' + label)
            return
        ctx = self.ctx

        def w(s, *a, **k):
            r = orig(s, *a, **k)
            ctx.stat('hook_evaluations')
            try:
                ok = cond(s)
            except Exception:
                ok = True
                ctx.stat('hook_unreadable:' + label)
            if not ok:
                ctx.stat('hook_discrepancy:' + label)
            return r
        setattr(cls, name, w)


def history(r, ctx, refs, calls, hi):
    n = r.randint(30, 200)
    live = []          # (call index, generator, items so far)
    log = []
    d0 = confine.state_digest()
    usable = [i for i, c in enumerate(calls) if have(c) and 'harness_error' not in refs[i]]
    flags = set()
    for step in range(n):
        c = r.random()
        ctx.stat('history_steps')
        if live and c < 0.35:
            # advance / abandon / close a live generator call
            j = r.randrange(len(live))
            ci, gen, items = live[j]
            mode = r.random()
            if mode < 0.15:
                gen.close()
                live.pop(j)
                check_prefix(ctx, calls, refs, ci, items, None, log, 'abandoned')
                continue
            try:
                items.append(canon(next(gen)))
            except StopIteration:
                live.pop(j)
                check_full(ctx, calls, refs, ci, {'items': items, 'exc': None}, log)
            except RecursionError:
                live.pop(j)
            except Exception as e:
                live.pop(j)
                check_full(ctx, calls, refs, ci, {'items': items, 'exc': canon(exc_sig(e))}, log)
        else:
            ci = r.choice(usable)
            call = calls[ci]
            log.append(ci)
            if refs[ci].get('exc'):
                flags.add('failing')
            if call[0] == 'read' and call[1] in (4, 5, 6, 7, 10, 1, 2, 3):
                flags.add('directives_or_anchors')
            if c < 0.6 or call[0] not in ('read', 'readb'):
                before = confine.state_digest() if step % 4 == 0 else None
                got = canon(run_call(call))
                if before is not None:
                    diff = confine.digest_diff(before, confine.state_digest())
                    ctx.stat('digest_checks')
                    if diff:
                        ctx.violation({'history': log[-40:], 'call': list(call)}, {'what': 'library-global state changed during a call', 'changed': diff[:8]}, None)
                        return flags
                check_full(ctx, calls, refs, ci, got, log)
            else:
                try:
                    live.append((ci, start_call(call), []))
                except Exception as e:
                    check_full(ctx, calls, refs, ci, {'items': [], 'exc': canon(exc_sig(e))}, log)
    for ci, gen, items in live:
        gen.close()
    diff = confine.digest_diff(d0, confine.state_digest())
    ctx.stat('digest_checks')
    if diff:
        ctx.violation({'history': log[-60:]}, {'what': 'library-global state differs after the history', 'changed': diff[:8]}, None)
    return flags


def check_full(ctx, calls, refs, ci, got, log):
    ref = refs[ci]
    ctx.stat('calls_compared')
    if got != {'items': ref['items'], 'exc': ref['exc']}:
        what = 'a call gives another result inside a history than in a fresh interpreter'
        gi, ri = got['items'], ref['items']
        k = next((j for j, (a, b) in enumerate(zip(gi, ri)) if a != b), min(len(gi), len(ri)))
        ctx.violation({'history': log[-60:], 'call': list(calls[ci]), 'call_index': ci},
                      {'what': what, 'first_differing_item': k, 'in_history': repr((gi[k:k + 1], got['exc']))[:500], 'fresh': repr((ri[k:k + 1], ref['exc']))[:500]}, None)


def check_prefix(ctx, calls, refs, ci, items, exc, log, why):
    ref = refs[ci]
    ctx.stat('calls_compared')
    if items != ref['items'][:len(items)]:
        ctx.violation({'history': log[-60:], 'call': list(calls[ci]), 'call_index': ci},
                      {'what': 'items delivered by an interleaved (%s) call differ from the fresh-interpreter run' % why}, None)


# ---------------------------------------------------------------------------------------------
# streams of independent documents

DOCS = ['--- a\n', '--- [1, 2]\n', '--- {k: v}\n', '--- &a [x]\n', '--- &a {k: &b v, l: *b}\n', '--- *a\n', '--- [*b]\n', '--- !e!t x\n', '--- !!str 1\n', '--- !x y\n',
        '%TAG !e! tag:e.com,2000:\n--- !e!t z\n', '%TAG ! !my-\n--- !x y\n', '%TAG !! tag:other.org,2002:\n--- !!str q\n', '%YAML 1.1\n--- v\n', '%YAML 1.1\n%TAG !e! tag:f.com,2000:\n--- !e!u w\n',
        '---\n', '--- ~\n', '--- |\n  lit\n', '--- >+\n  keep\n\n', '--- "dq"\n', "--- 'sq'\n", '--- &r [*r]\n', '--- 1\n', '--- &a 1\n--- *a\n'[:9], '--- {<<: {a: 1}, b: 2}\n',
        # deep construction (__setstate__, apply arguments) that meets an already constructed node, then recursive documents
        '---\n- &s [1, 2]\n- !!python/object:vf.gen.shapes.StateDict {x: *s, y: 1}\n', '--- !appstate {x: &w [1], y: *w}\n', '--- &t {me: *t, l: &u [*u, *t]}\n',
        '---\n- &l [1]\n- !!python/object/apply:vf.gen.shapes.func [*l]\n', '--- &q {k: [&z {a: 1}, *z]}\n', '--- &o !!omap [a: *o]\n', '--- &p !!pairs [a: &i [*p, *i]]\n',
        '--- !!set {x}\n', '--- - a\n', '--- !!python/tuple [1]\n', '--- [a\n', '--- @\n', '--- !!int x\n', '--- {[a]: b}\n']


def isolated(doc, op, L):
    try:
        if op == 'load_all':
            return ('ok', [bisim.sig(x) for x in yaml.load_all(doc, Loader=L)])
        if op == 'compose_all':
            return ('ok', [sigs.node_sig(x) for x in yaml.compose_all(doc, Loader=L)])
        evs = [sigs.ev_sig(e) for e in yaml.parse(doc, Loader=L)]
        return ('ok', evs[1:-1])
    except yaml.YAMLError as e:
        return ('err', type(e).__name__, getattr(e, 'problem', None), getattr(e, 'context', None))


def stream_case(r, ctx, i):
    docs = [r.choice(DOCS) for _ in range(r.randint(2, 6))]
    parts = []
    for j, d in enumerate(docs):
        parts.append(d)
        nxt = docs[j + 1] if j + 1 < len(docs) else ''
        if nxt.startswith('%') or r.random() < 0.2:
            parts.append('...\n')
    text = ''.join(parts)
    ctx.case(core.h64(text), True, ['ndocs:%d' % len(docs)])
    if i < 2:
        ctx.sample({'stream': text})
    for ln in [n for n in ['SafeLoader', 'CSafeLoader', 'UnsafeLoader', 'CLoader', 'AppLoader', 'CAppLoader', 'FullLoader'][:2 + (i % 6)]
               if n in globals() or hasattr(yaml, n)]:
        for op in ('load_all', 'compose_all', 'parse'):
            case = {'stream': text, 'docs': docs, 'op': op, 'loader': ln}
            ctx.crumb(case)
            check_stream(text, docs, op, ln, ctx, case)


def check_stream(text, docs, op, ln, ctx, case):
    L = getattr(yaml, ln, None) or globals()[ln]
    want = []
    err = None
    for d in docs:
        iso = isolated(d, op, L)
        if iso[0] == 'err':
            err = iso
            break
        want.extend(iso[1])
    got = []
    gerr = None
    try:
        if op == 'load_all':
            for x in yaml.load_all(text, Loader=L):
                got.append(bisim.sig(x))
        elif op == 'compose_all':
            for x in yaml.compose_all(text, Loader=L):
                got.append(sigs.node_sig(x))
        else:
            evs = []
            try:
                for e in yaml.parse(text, Loader=L):
                    evs.append(sigs.ev_sig(e))
            finally:
                got = [e for e in evs if e[0] not in ('StreamStart', 'StreamEnd')]
    except yaml.YAMLError as e:
        gerr = ('err', type(e).__name__, getattr(e, 'problem', None), getattr(e, 'context', None))
    ctx.stat('streams_compared')
    if op == 'parse':
        # explicit flags of DocumentEnd depend on the separator written between the documents: neutralise
        norm = lambda evs: [e if e[0] not in ('DocumentEnd',) else ('DocumentEnd',) for e in evs]
        got, want2 = norm(got), norm(want)
    else:
        want2 = want
    bad = None
    if err is None:
        if gerr is not None:
            bad = 'the stream is rejected although every document is accepted alone'
        elif got != want2:
            bad = 'documents read from the stream differ from the documents read alone'
    else:
        ctx.stat('leak_bait_streams')
        if gerr is None:
            bad = 'the stream is accepted although one of its documents is rejected alone (state of an earlier document leaked into it)'
        elif norm_err(gerr) != norm_err(err):
            bad = 'a document fails in the stream with another error than alone'
        elif op != 'parse' and got != want2:
            bad = 'documents delivered before the failing one differ from the documents read alone'
        elif op == 'parse' and got[:len(want2)] != want2:
            bad = 'events delivered before the failing document differ from the documents parsed alone'
    if bad:
        ctx.violation(case, {'what': bad, 'stream_error': repr(gerr), 'isolated_error': repr(err), 'stream_items': len(got), 'isolated_items': len(want2),
                             'first_diff': repr(next(((a, b) for a, b in zip(got, want2) if a != b), None))[:500]}, None)


def norm_err(e):
    """(class, context, problem) with the name of the token that happens to follow an unterminated construct neutralised."""
    p = e[2]
    if isinstance(p, str):
        for tok in ("'<document start>'", "'<stream end>'", "'<document end>'", '<document start>', '<stream end>', '<document end>'):
            p = p.replace(tok, '<end>')
    return (e[1], e[3], p)


def emit_stream_case(r, ctx, i):
    """Writing side of 'every document stands alone': a document is written inside a stream exactly as it is written
    alone (same events back: tags, handles, anchors), whatever %TAG / %YAML directives or anchors its neighbours carry."""
    from . import c12, c05
    if i % 8 == 0:
        # the same full tag in neighbouring documents whose %TAG tables differ (declared, declared under another handle,
        # handle bound to another prefix, not declared at all)
        prefix = r.choice(['tag:example.com,2000:', '!my-', 'tag:yaml.org,2002:'])
        full = prefix + r.choice(['t1', 'str', 'x/y'])
        tables = [None, {'!e!': prefix}, {'!f!': prefix}, {'!e!': 'tag:elsewhere.org,2000:'}, {'!e!': prefix, '!f!': 'tag:elsewhere.org,2000:'}]
        docs = []
        for _ in range(r.randint(2, 4)):
            node = r.choice([[['SC', None, full, [False, False], 'v', None]], [['QS', None, full, False, None], ['SC', None, full, [False, False], 'w', None], ['QE']],
                             [['MS', None, None, True, None], ['SC', None, full, [False, False], 'k', None], ['SC', None, None, [True, True], 'v', None], ['ME']]])
            docs.append([['DS', True, None, r.choice(tables)]] + node + [['DE', r.random() < 0.3]])
        ctx.stat('emit_streams_same_tag_different_tables')
    else:
        docs = [c12.gen_event_doc(r) for _ in range(r.randint(2, 4))]
    for d in docs:
        d[0][1] = True                         # explicit starts: the documents can be told apart in both texts
    for dname in yamlapi.loaders(['Dumper', 'CDumper']):
        case = {'emit_docs': docs, 'D': dname}
        ctx.crumb(case)
        try:
            whole = list(yaml.parse(yaml.emit(EV.build([['SS']] + [e for d in docs for e in d] + [['SE']]), Dumper=getattr(yaml, dname)), Loader=yaml.Loader))
        except yaml.YAMLError as e:
            E = EV.build([['SS']] + [e for d in docs for e in d] + [['SE']])
            mech = c05.classify([['SS']] + [e for d in docs for e in d] + [['SE']], {}, dname, 'Loader', None, E, None, '') if dname == 'CDumper' else None
            alone_ok = True
            for d in docs:
                try:
                    list(yaml.parse(yaml.emit(EV.build([['SS']] + d + [['SE']]), Dumper=getattr(yaml, dname)), Loader=yaml.Loader))
                except yaml.YAMLError:
                    alone_ok = False
            if alone_ok:
                ctx.violation(case, {'what': 'a stream of documents cannot be read back although every document written alone can', 'exc': yamlapi.exc_sig(e)}, mech)
            continue
        per, cur = [], None
        for e in whole:
            if isinstance(e, yaml.DocumentStartEvent):
                cur = [sigs.ev_sig(e, explicit=False)]
            elif isinstance(e, yaml.DocumentEndEvent):
                per.append(cur)
                cur = None
            elif cur is not None:
                cur.append(sigs.ev_sig(e, style=False))
        ctx.stat('emit_streams_compared')
        for k, d in enumerate(docs):
            try:
                alone = list(yaml.parse(yaml.emit(EV.build([['SS']] + d + [['SE']]), Dumper=getattr(yaml, dname)), Loader=yaml.Loader))
            except yaml.YAMLError:
                break
            a = [sigs.ev_sig(alone[1], explicit=False)] + [sigs.ev_sig(e, style=False) for e in alone[2:-2]]
            if k >= len(per) or per[k] != a:
                E = EV.build([['SS']] + [e for dd in docs for e in dd] + [['SE']])
                mech = c05.classify([['SS']] + [e for dd in docs for e in dd] + [['SE']], {}, dname, 'Loader', 'x', E, whole, '') if dname == 'CDumper' else None
                diff = next(((x, y) for x, y in zip(per[k] if k < len(per) else [], a) if x != y), None)
                ctx.violation(case, {'what': 'a document is written differently inside a stream than alone', 'document': k, 'first_diff': repr(diff)[:400]}, mech)
                break


def serialize_stream_case(r, ctx, i):
    """serialize_all of node graphs that share node objects between documents: every document is serialized on its own
    (its anchors and aliases refer to nothing outside it)."""
    srcs = ['[a, b]', '{k: [1, 2]}', 'x', '&a [*a]', '[[p], [p]]', '{a: {b: c}}', '- &x [1]\n- *x', '[]']
    nodes = [yaml.compose(r.choice(srcs)) for _ in range(r.randint(2, 4))]
    mode = r.choice(['same_root', 'same_child', 'none'])
    if mode == 'same_root':
        nodes[-1] = nodes[0]
    elif mode == 'same_child':
        cols = [n for n in nodes if isinstance(n, yaml.CollectionNode) and n.value]
        if len(cols) >= 2 and type(cols[0]) is type(cols[-1]):
            cols[-1].value[0] = cols[0].value[0]
    for dname in yamlapi.loaders(['Dumper', 'CDumper']):
        case = {'serialize_stream': [sigs.node_sig(n) for n in nodes], 'mode': mode, 'D': dname}
        ctx.crumb(case)
        alone = []
        for n in nodes:
            alone.append(sigs.node_sig(yaml.compose(yaml.serialize(n, Dumper=getattr(yaml, dname)))))
        try:
            back = [sigs.node_sig(n) for n in yaml.compose_all(yaml.serialize_all(nodes, Dumper=getattr(yaml, dname)))]
        except yaml.YAMLError as e:
            ctx.violation(case, {'what': 'serialize_all of documents that each serialize alone cannot be read back', 'exc': yamlapi.exc_sig(e)}, None)
            continue
        ctx.stat('serialize_streams_compared')
        if back != alone:
            ctx.violation(case, {'what': 'a node graph is serialized differently inside a stream than alone', 'stream': back, 'alone': alone}, None)


def run(spec, ctx):
    r = random.Random(core.h64('C11', spec['seed'], spec['kind'], spec['shard']))
    if spec['kind'] == 'histories':
        refs = json.load(open(spec['refs']))
        calls = pool()
        bad = [x for x in refs if 'harness_error' in x]
        ctx.stat('reference_calls', len(refs) - len(bad))
        if len(bad) > len(refs) // 2:
            ctx.stat('references_unusable')
            return
        Hooks(ctx)
        for hi in range(spec['n']):
            ctx.crumb({'history_number': hi, 'shard': spec['shard']})
            flags = history(r, ctx, refs, calls, hi)
            ctx.case(core.h64('hist', spec['seed'], spec['shard'], hi), flags is not None and len(flags) == 2, ['history'])
        ctx.sample({'pool_size': len(calls), 'example_call': list(calls[3])})
    else:
        Hooks(ctx)
        for i in range(spec['n']):
            stream_case(r, ctx, i)
            if i % 4 == 0:
                emit_stream_case(r, ctx, i)
            if i % 6 == 1:
                serialize_stream_case(r, ctx, i)
            if i % 5 == 2:
                reuse_case(r, ctx, i)


REUSE_OPTS = [{}, {'canonical': True}, {'allow_unicode': True}, {'default_style': '"'}, {'default_flow_style': True}, {'width': 20, 'indent': 4}, {'default_style': '|'},
              {'explicit_start': True, 'version': (1, 1)}, {'tags': {'!e!': 'tag:e.com,2000:'}}, {'line_break': '\r\n'}, {'default_flow_style': False, 'sort_keys': False}]
REUSE_TEXTS = ['a: 1\nb: [x, y]\n', 'caf' + E9 + ': [' + chr(0x4e2d) + ', "q", ''\'s\', |\n  lit\n]\n'.replace('|\n  lit\n', 'z'), '- &a [1, 2]\n- *a\n- {k: v}\n', '--- !e!t x\n'.replace('!e!t', '!<tag:e.com,2000:t>'),
               'k: |\n  literal\n  text\nf: >\n  folded\n  text\n', '- 2001-01-01\n- 1.5\n- ~\n- yes\n- "12"\n', '? [a, b]\n: {c: d}\n', 'long: ' + 'word ' * 30 + '\n']


def reuse_case(r, ctx, i):
    """The caller's events, nodes and values belong to the caller: emitting / serializing / dumping them with one option set
    must not colour a later call that is given the very same objects - its output is that of the call on equal, fresh objects."""
    t = r.choice(REUSE_TEXTS)
    o1, o2 = r.choice(REUSE_OPTS), r.choice(REUSE_OPTS)
    e_opts = lambda o: {k: v for k, v in o.items() if k in ('canonical', 'allow_unicode', 'width', 'indent', 'line_break')}
    s_opts = lambda o: {k: v for k, v in o.items() if k not in ('default_style', 'default_flow_style', 'sort_keys')}
    for dn in yamlapi.loaders(['Dumper', 'CDumper']):
        D = getattr(yaml, dn)
        for level in ('emit', 'serialize', 'dump'):
            case = {'reuse': level, 'text': t, 'first': o1, 'second': o2, 'D': dn}
            ctx.crumb(case)
            ctx.case(core.h64('reuse', level, t, repr(o1), repr(o2), dn), True, ['reuse:' + level])
            try:
                if level == 'emit':
                    objs = list(yaml.parse(t, Loader=yaml.Loader))
                    yaml.emit(objs, Dumper=D, **e_opts(o1))
                    got = yaml.emit(objs, Dumper=D, **e_opts(o2))
                    want = yaml.emit(list(yaml.parse(t, Loader=yaml.Loader)), Dumper=D, **e_opts(o2))
                elif level == 'serialize':
                    node = yaml.compose(t, Loader=yaml.Loader)
                    yaml.serialize(node, Dumper=D, **s_opts(o1))
                    got = yaml.serialize(node, Dumper=D, **s_opts(o2))
                    want = yaml.serialize(yaml.compose(t, Loader=yaml.Loader), Dumper=D, **s_opts(o2))
                else:
                    data = yaml.load(t, Loader=yaml.Loader)
                    yaml.dump(data, Dumper=D, **o1)
                    got = yaml.dump(data, Dumper=D, **o2)
                    want = yaml.dump(yaml.load(t, Loader=yaml.Loader), Dumper=D, **o2)
            except yaml.YAMLError as e:
                ctx.stat('reuse_rejected')
                continue
            ctx.stat('reuse_checks')
            if got != want:
                ctx.violation(case, {'what': 'a second call on the same caller objects gives another text than the call on fresh, equal objects (the first call left traces in them)',
                                     'got': got[:400], 'want': want[:400]}, None)


def replay(case, ctx):
    ctx.case(core.h64(repr(case)), True)
    if 'reuse' in case:
        class R:
            def __init__(self, seq):
                self.seq = list(seq)

            def choice(self, xs):
                return self.seq.pop(0)
        reuse_case(R([case['text'], {k: (tuple(v) if k == 'version' else v) for k, v in case['first'].items()}, {k: (tuple(v) if k == 'version' else v) for k, v in case['second'].items()}]), ctx, 0)
        return
    if 'stream' in case:
        check_stream(case['stream'], case['docs'], case['op'], case['loader'], ctx, case)
        return
    # a history: replay the recorded tail of call indices sequentially against fresh references
    calls = pool()
    env = dict(os.environ)
    log = []
    for ci in case.get('history', []):
        got = canon(run_call(calls[ci]))
        p = subprocess.run([sys.executable, '-m', 'vf.checks.c11', 'ref', str(ci)], capture_output=True, text=True, env=env, timeout=120)
        ref = json.loads(p.stdout)
        log.append(ci)
        if got != {'items': ref['items'], 'exc': ref['exc']}:
            ctx.violation({'history': log, 'call': list(calls[ci])}, {'what': 'a call gives another result inside a history than in a fresh interpreter'}, None)
            return


def summarize(agg, tier):
    if _TMP:
        core.rmtree(_TMP)
    st = agg['stats']
    out = {'calls_compared_with_fresh_interpreter': st.get('calls_compared', 0), 'digest_checks': st.get('digest_checks', 0),
           'hook_evaluations': st.get('hook_evaluations', 0), 'hook_discrepancies': {k.split(':', 1)[1]: v for k, v in st.items() if k.startswith('hook_discrepancy:')},
           'reference_calls': st.get('reference_calls', 0)}
    if st.get('references_unusable') or not st.get('calls_compared') or not st.get('digest_checks') or not st.get('streams_compared'):
        out['_inconclusive'] = 'history oracle, digest monitor or stream oracle observed nothing (or the fresh-interpreter references could not be computed)'
    return out


if __name__ == '__main__':
    if sys.argv[1] == 'ref':
        sys.setrecursionlimit(1000)
        c = pool()[int(sys.argv[2])]
        sys.stdout.write(json.dumps(canon(run_call(c))))
