"""C08 - plain scalars are typed by the YAML 1.1 rules on load and on dump (reference: ref.yaml11)."""
import datetime
import itertools
import math
import random
import struct

import yaml
from yaml.nodes import ScalarNode

from .. import core, yamlapi
from ..ref import yaml11, bisim
from ..gen import strings as S

ID = 'C08'
LEVEL = 'exploration'
LEVEL_TEXT = ('Exploration with an exhaustive slice: every string over a 17-symbol numeric alphabet up to length 4 (quick) / 5 '
              '(thorough), keyword neighbourhoods, timestamp field products and generated members/near-misses of every type '
              'are resolved, constructed, loaded in plain/flow/mapping/quoted/block contexts by both back-ends and dumped '
              'again; every text is first resolved by resolvers with other rule sets (a shared memo must not colour the answer) and quoted '
              'renderings are also tried as mapping keys; an independent character-level evaluator of the YAML 1.1 type repository (ref.yaml11) is the oracle, '
              'a brute-force scan over all implicit-resolver buckets checks the first-character index.' + ' Look-alikes of 100-590 characters (12 forms) are included: no length cut-off may exist anywhere in resolution.')
LEVEL_NOTE = ('Trusted: ref.yaml11 as the statement of the documented dialect (it agreed with the code on 1.18 M texts before '
              'the check was written); strings outside the enumerated alphabets are sampled, not enumerated.')
TECHNIQUE = 'runtime monitoring: reference-model oracle (independent YAML 1.1 evaluator) over enumerated + generated scalar texts'
DESIGN_REF = 'DESIGN.md section 3, C08'
RULE = ('texts: all strings over "0178afxboeE+-_.:" + "9" up to the tier length, keyword edit-distance-1 neighbours, timestamp '
        'field products, type members/near-misses; values: ints, floats (random bit patterns), dates, datetimes. A case is one '
        'text or value; non-trivial = resolves (by code or reference) to a non-str type, or is dumped; distinct by hash')
ASSUMPTIONS = ['PyYAML dialect: bool without y/n, float needs a ".", as documented in resolver.py/constructor.py']
ALPHA = '0179afxboeE+-_.: '[:17]
P = 'tag:yaml.org,2002:'
KW = ['yes', 'no', 'true', 'false', 'on', 'off', 'null', '~', '.inf', '.nan', '<<', '=', 'y', 'n', '-.inf', '+.inf']


def plan(tier, seed):
    q = tier == 'quick'
    n = 14
    specs = [{'kind': 'enum', 'shard': i, 'of': n, 'maxlen': 4 if q else 5, 'cext': 'plain'} for i in range(n)]
    specs.append({'kind': 'keywords', 'shard': 0, 'cext': 'plain'})
    for i in range(2 if q else 8):
        specs.append({'kind': 'timestamps', 'shard': i, 'n': 8000 if q else 60000, 'cext': 'plain'})
    for i in range(2 if q else 8):
        specs.append({'kind': 'values', 'shard': i, 'n': 6000 if q else 80000, 'cext': 'plain'})
    specs.append({'kind': 'tables', 'shard': 0, 'cext': 'plain'})
    return specs


def mkresolver(cls):
    o = object.__new__(cls)
    yaml.resolver.BaseResolver.__init__(o)
    return o


def same_value(v, rv):
    if type(v) is not type(rv):
        return False
    return bisim.atom_eq(v, rv)


class T:
    def __init__(self, ctx):
        self.ctx = ctx
        self.rl = mkresolver(yaml.SafeLoader)
        self.rd = mkresolver(yaml.SafeDumper)
        self.cons = yaml.SafeLoader('')
        App = type('AppResolverLoader', (yaml.SafeLoader,), {})
        App.add_implicit_resolver('!everything', __import__('re').compile(r'^.+$'), None)
        self.others = [mkresolver(yaml.BaseLoader), mkresolver(yaml.BaseDumper), mkresolver(App)]
        self.loaders = ['SafeLoader'] + (['CSafeLoader'] if yamlapi.HAVE_C else [])
        # all (tag, regexp) pairs of the loader-side table, in order of first appearance
        seen = []
        for ch, lst in yaml.SafeLoader.yaml_implicit_resolvers.items():
            for tag, rx in lst:
                if (tag, rx) not in seen:
                    seen.append((tag, rx))
        self.all_rx = seen

    def viol(self, text, what, **kw):
        d = {'what': what}
        d.update(kw)
        self.ctx.violation({'text': text}, d, None)

    def load(self, doc, lname):
        try:
            return ('ok', yaml.load(doc, Loader=getattr(yaml, lname)))
        except yaml.YAMLError as e:
            return ('yamlerror', type(e).__name__)
        except Exception as e:
            return ('nonyaml', type(e).__name__ + ': ' + str(e)[:80])

    def text(self, t, cls):
        ctx = self.ctx
        ctx.crumb({'text': t})
        ref = yaml11.classify(t)
        # the same text is first put through resolvers with other rule sets (no implicit rules at all; an application rule):
        # what they answer must not colour what the safe resolver answers afterwards (a memo shared across classes)
        for other in self.others:
            other.resolve(ScalarNode, t, (True, False))
        tag = self.rl.resolve(ScalarNode, t, (True, False))
        got = tag[len(P):] if tag.startswith(P) else tag
        ctx.case(core.h64(t), ref != 'str' or got != 'str', [cls, 'type:' + ref])
        ctx.stat('resolved')
        if got != ref:
            self.viol(t, 'resolver disagrees with the YAML 1.1 reference', code=got, reference=ref)
        # (vii) loader- and dumper-side tables agree
        tagd = self.rd.resolve(ScalarNode, t, (True, False))
        if tagd != tag:
            self.viol(t, 'loader-side and dumper-side resolvers disagree', loader=tag, dumper=tagd)
        # (ii) first-character index must not lose or invent a match
        hits = [tg for tg, rx in self.all_rx if rx.match(t)]
        if (hits[0] if hits else P + 'str') != tag:
            self.viol(t, 'first-character index changes the result of resolution', indexed=tag, brute_force=hits)
        # quoted / non-plain flags: always str
        if self.rl.resolve(ScalarNode, t, (False, True)) != P + 'str':
            self.viol(t, 'non-plain scalar not resolved to str')
        # (iii) converter against the reference value
        val = None
        ok = False
        if got in ('int', 'float', 'bool', 'null', 'timestamp') and got == ref:
            try:
                rv = yaml11.value(t)
                rerr = None
            except yaml11.Invalid:
                rv, rerr = None, 'invalid'
            try:
                val = self.cons.construct_object(ScalarNode(tag, t))
                err = None
            except yaml.YAMLError:
                err = 'yaml'
            except Exception as e:
                err = type(e).__name__
            if err not in (None, 'yaml'):
                self.viol(t, 'converter raised a non-YAML exception', exc=err, tag=got)
            elif (err is None) != (rerr is None):
                self.viol(t, 'converter and reference disagree on validity', code_error=err, reference_error=rerr, tag=got)
            elif err is None:
                ok = True
                if not same_value(val, rv):
                    self.viol(t, 'constructed value differs from the YAML 1.1 value', code=repr(val), reference=repr(rv))
            ctx.stat('converted')
        # contexts (only where the scanner confirms one plain scalar token carrying exactly this text)
        if t and self.is_plain(t):
            expected = val if ok else (t if ref == 'str' else None)
            decided = ok or ref == 'str'
            if ref == 'null':
                expected, decided = None, True
            for lname in self.loaders:
                for name, doc, unwrap in (('root', t, lambda x: x), ('flowseq', '[' + t + ']', lambda x: x[0]),
                                          ('mapvalue', 'k: ' + t, lambda x: x['k'])):
                    if name == 'flowseq' and not self.is_plain(t, flow=True):
                        continue
                    st, res = self.load(doc, lname)
                    ctx.stat('context_loads')
                    if st == 'nonyaml':
                        self.viol(t, 'load raised a non-YAML exception', context=name, loader=lname, exc=res)
                    elif st == 'ok' and decided:
                        try:
                            v = unwrap(res)
                        except Exception:
                            self.viol(t, 'unexpected document shape', context=name, loader=lname, got=repr(res))
                            continue
                        if ref in ('merge', 'value'):
                            pass
                        elif not same_value(v, expected):
                            self.viol(t, 'loaded value differs from the YAML 1.1 value', context=name, loader=lname, got=repr(v), expected=repr(expected))
                    elif st == 'yamlerror' and decided:
                        self.viol(t, 'valid plain scalar rejected', context=name, loader=lname, exc=res)
        # (iv) quoted and block renderings are strings
        if '\n' not in t and '\r' not in t:
            docs = [("'" + t.replace("'", "''") + "'", 'single'), ('"' + t.replace('\\', '\\\\').replace('"', '\\"') + '"', 'double')]
            if t and not t.startswith(' ') and not t.endswith(' ') and '\t' not in t:
                docs.append(('--- |-\n  ' + t + '\n', 'literal'))
                docs.append(('--- >-\n  ' + t + '\n', 'folded'))
            for doc, style in docs:
                for lname in self.loaders:
                    st, res = self.load(doc, lname)
                    if st != 'ok' or type(res) is not str or res != t:
                        self.viol(t, 'quoted/block scalar did not load as the same str', style=style, loader=lname, got=repr(res))
            # as a mapping key: quoted -> the str itself (in particular '<<' and '=' are ordinary keys), plain -> the plain meaning
            if t:
                for doc, style in ((("'" + t.replace("'", "''") + "': v"), 'single-quoted key'), (('"' + t.replace('\\', '\\\\').replace('"', '\\"') + '": v'), 'double-quoted key'),
                                   ('? !!str ' + docs[0][0] + '\n: v\n', 'tagged key')):
                    for lname in self.loaders:
                        st, res = self.load(doc, lname)
                        ctx.stat('key_context_loads')
                        if st != 'ok' or type(res) is not dict or list(res.keys()) != [t] or type(list(res.keys())[0]) is not str:
                            self.viol(t, 'quoted scalar used as a mapping key did not load as the same str key', style=style, loader=lname, got=repr(res))
        # (v) dump side: the str must come back as the same str
        for dname in ['SafeDumper'] + (['CSafeDumper'] if yamlapi.HAVE_C else []):
            try:
                out = yaml.dump(t, Dumper=getattr(yaml, dname))
            except Exception as e:
                self.viol(t, 'dump of a str raised', dumper=dname, exc=type(e).__name__)
                continue
            for lname in self.loaders:
                st, res = self.load(out, lname)
                if st != 'ok' or type(res) is not str or res != t:
                    self.viol(t, 'str does not survive dump/load (look-alike not protected)', dumper=dname, loader=lname, output=out, got=repr(res))
            ctx.stat('str_dumps')

    def is_plain(self, t, flow=False):
        try:
            toks = list(yaml.scan(('[' + t + ']') if flow else t, Loader=yaml.SafeLoader))
        except yaml.YAMLError:
            return False
        sc = [x for x in toks if isinstance(x, yaml.ScalarToken)]
        want = 5 if flow else 3
        return len(toks) == want and len(sc) == 1 and sc[0].plain and sc[0].value == t

    def value(self, v, cls):
        ctx = self.ctx
        ctx.crumb({'value': repr(v)})
        ctx.case(core.h64(repr(v), cls), True, [cls])
        for dname in ['SafeDumper'] + (['CSafeDumper'] if yamlapi.HAVE_C else []):
            try:
                out = yaml.dump(v, Dumper=getattr(yaml, dname))
            except Exception as e:
                self.ctx.violation({'value': repr(v)}, {'what': 'dump raised', 'dumper': dname, 'exc': type(e).__name__}, None)
                continue
            body = out.strip()
            if body.endswith('\n...'):
                body = body[:-4].strip()
            # the typed value is written plain, and the reference evaluator reads the text as the same value
            if not body.startswith('!!'):
                try:
                    rv = yaml11.value(body)
                    if not same_value(rv, v):
                        self.ctx.violation({'value': repr(v)}, {'what': 'dumped text denotes another value by the YAML 1.1 rules', 'dumper': dname, 'text': body, 'reference_reads': repr(rv)}, classify_value(v))
                except yaml11.Invalid:
                    self.ctx.violation({'value': repr(v)}, {'what': 'dumped text is not a valid member of its type', 'dumper': dname, 'text': body}, classify_value(v))
            else:
                ctx.stat('typed_value_needed_explicit_tag')
                self.ctx.violation({'value': repr(v)}, {'what': 'typed value needed an explicit tag (its text does not resolve to its own type)', 'dumper': dname, 'text': body}, classify_value(v))
            for lname in self.loaders:
                st, res = self.load(out, lname)
                if st != 'ok' or not same_value(res, v):
                    self.ctx.violation({'value': repr(v)}, {'what': 'typed value does not survive dump/load', 'dumper': dname, 'loader': lname, 'text': out, 'got': repr(res)}, classify_value(v))
            ctx.stat('value_dumps')
            # the same value inside collections, in flow and block form and under every requested scalar style: whatever
            # style the emitter ends up with, the text must read back as the same typed value
            combos = [(wrap, {'default_flow_style': fs}) for wrap in ('list', 'value', 'key') for fs in (None, True, False)]
            combos += [('list', {'default_style': st}) for st in ('"', "'", '|', '>')] + [('value', {'default_flow_style': True, 'default_style': "'"}), ('list', {'canonical': True})]
            for wrap, opts in combos:
                if wrap == 'key' and (v is None or (isinstance(v, float) and v != v)):
                    continue
                w = [v] if wrap == 'list' else ({'k': v} if wrap == 'value' else {v: 'k'})
                try:
                    out2 = yaml.dump(w, Dumper=getattr(yaml, dname), **opts)
                except Exception as e:
                    self.ctx.violation({'value': repr(v)}, {'what': 'dump raised', 'dumper': dname, 'wrap': wrap, 'opts': opts, 'exc': type(e).__name__}, None)
                    continue
                for lname in self.loaders:
                    st, res = self.load(out2, lname)
                    got = None
                    if st == 'ok':
                        try:
                            got = res[0] if wrap == 'list' else (res['k'] if wrap == 'value' else next(iter(res)))
                        except Exception:
                            st = 'shape'
                    if st != 'ok' or not same_value(got, v):
                        self.ctx.violation({'value': repr(v)}, {'what': 'typed value does not survive dump/load inside a collection', 'dumper': dname, 'loader': lname, 'wrap': wrap, 'opts': opts,
                                                                'text': out2, 'got': repr(res)[:200]}, classify_value(v))
                ctx.stat('value_dumps_in_context')


def classify_value(v):
    if isinstance(v, datetime.datetime) and v.tzinfo is not None and v.utcoffset().total_seconds() % 60:
        return 'F11'
    return None


def ts(r):
    y = r.choice(['2001', '0001', '9999', '0000', '201', '20011', '1970'])
    mo = r.choice(['1', '01', '12', '13', '00', '9', '123', '02'])
    d = r.choice(['1', '01', '31', '32', '00', '28', '30', '111', '29'])
    s = y + r.choice(['-', '-', '-', '/', '']) + mo + '-' + d
    if r.random() < 0.7:
        s += r.choice(['T', 't', ' ', '  ', '\t', ' \t', '', 'x']) + r.choice(['0', '00', '23', '24', '9', '99', '123']) + ':' + r.choice(['00', '59', '60', '5', '99']) + ':' + r.choice(['00', '59', '60', '61', '5'])
        if r.random() < 0.5:
            s += '.' + ''.join(r.choice('0123456789') for _ in range(r.randint(0, 9)))
        if r.random() < 0.6:
            s += r.choice(['', ' ', '  ', '\t']) + r.choice(['Z', 'z', '+1', '-1', '+01', '-12', '+24', '+99', '+1:30', '-05:00', '+05:3', '+05:300', '+', '-', '+001', '+00:00', '-23:59', '+99:99'])
    if r.random() < 0.1:
        s += r.choice([' ', 'x', '.', ':'])
    return s


def members(r):
    """Generated members and near-misses of each numeric type."""
    c = r.random()
    sign = r.choice(['', '', '-', '+'])
    dig = lambda n, alpha='0123456789': ''.join(r.choice(alpha) for _ in range(n))
    if c < 0.15:
        s = sign + r.choice(['0b', '0B', '0b_', '0b1_']) + dig(r.randint(0, 12), '01_')
    elif c < 0.3:
        s = sign + r.choice(['0x', '0X', '0x_']) + dig(r.randint(0, 10), '0123456789abcdefABCDEF_g')
    elif c < 0.4:
        s = sign + '0' + dig(r.randint(0, 10), '01234567_8')
    elif c < 0.55:
        s = sign + dig(1, '123456789') + dig(r.randint(0, 20), '0123456789_')
    elif c < 0.7:
        s = sign + dig(r.randint(1, 3)) + ''.join(':' + dig(r.randint(1, 2), '0123456') for _ in range(r.randint(1, 4))) + r.choice(['', '', '.', '.5', '.0_1'])
    elif c < 0.9:
        s = sign + dig(r.randint(0, 4), '0123456789_') + r.choice(['.', '', '.']) + dig(r.randint(0, 5), '0123456789_') + r.choice(['', '', 'e', 'E']) + r.choice(['', '+', '-']) + dig(r.randint(0, 3))
    else:
        s = sign + r.choice(['.inf', '.Inf', '.INF', '.nan', '.NaN', '.NAN', '.iNf', 'inf', 'nan', '.inF'])
    if r.random() < 0.05:
        s = s + r.choice([' ', '_', 'L', ':'])
    return s


def run(spec, ctx):
    t = T(ctx)
    kind = spec['kind']
    if kind == 'enum':
        k = 0
        for L in range(0, spec['maxlen'] + 1):
            for combo in itertools.product(ALPHA, repeat=L):
                if k % spec['of'] == spec['shard']:
                    t.text(''.join(combo), 'enum_len%d' % L)
                k += 1
        ctx.stat('exhaustive_shards_done')
        ctx.sample({'class': 'exhaustive', 'alphabet': ALPHA, 'maxlen': spec['maxlen']})
    elif kind == 'keywords':
        seen = set()
        for w in KW:
            for variant in {w, w.upper(), w.capitalize(), w.swapcase(), w.title()}:
                cands = {variant}
                for i in range(len(variant) + 1):
                    for ch in 'aA.~ _-+0<=nNyYoOfF':
                        cands.add(variant[:i] + ch + variant[i:])
                        if i < len(variant):
                            cands.add(variant[:i] + ch + variant[i + 1:])
                    if i < len(variant):
                        cands.add(variant[:i] + variant[i + 1:])
                        cands.add(variant[:i] + variant[i].swapcase() + variant[i + 1:])
                for c in sorted(cands):
                    if c not in seen:
                        seen.add(c)
                        t.text(c, 'keyword')
        ctx.sample({'class': 'keyword', 'n': len(seen)})
    elif kind == 'timestamps':
        r = random.Random(core.h64('C08ts', spec['seed'], spec['shard']))
        for i in range(spec['n']):
            s = ts(r) if i % 3 else members(r)
            cls = 'timestamp' if i % 3 else 'member'
            if i % 8 == 5:
                s, cls = S.long_lookalike(r), 'long_lookalike'        # no length cut-off anywhere in resolution
            if i < 2:
                ctx.sample({'class': 'timestamp/member', 'text': s})
            t.text(s, cls)
    elif kind == 'values':
        r = random.Random(core.h64('C08v', spec['seed'], spec['shard']))
        for i in range(spec['n']):
            c = i % 4
            if c == 0:
                v = r.choice([0, 1, -1, 8, 255, 10 ** 20, -10 ** 30, r.randint(-10 ** 9, 10 ** 9), r.randint(-2 ** 70, 2 ** 70)])
                cls = 'int'
            elif c == 1:
                v = struct.unpack('>d', r.getrandbits(64).to_bytes(8, 'big'))[0] if r.random() < 0.6 else r.choice(
                    [0.0, -0.0, 1e17, 1e16, 1e-5, 1e-4, 123456789012345680.0, 1e22, 1e23, 5e-324, float('inf'), float('-inf'), float('nan'),
                     0.1, 1.5, 100.0, 1e15, 12345678901234567.0, r.uniform(-1e6, 1e6), float(r.randint(-10 ** 18, 10 ** 18))])
                cls = 'float'
            elif c == 2:
                v = datetime.date(r.choice([1, 99, 999, 1000, 2001, 9999]), r.randint(1, 12), r.randint(1, 28))
                cls = 'date'
            else:
                tz = r.choice([None, None, 0, 3600, -18000, 19800, 20700, 86340, -86340])
                v = datetime.datetime(r.choice([1, 99, 1000, 2001, 9999]), r.randint(1, 12), r.randint(1, 28), r.randint(0, 23), r.randint(0, 59), r.randint(0, 59),
                                      r.choice([0, 0, 1, 10, 100000, 999999, 123400]), tzinfo=None if tz is None else datetime.timezone(datetime.timedelta(seconds=tz)))
                cls = 'datetime'
            if i < 4:
                ctx.sample({'class': cls, 'value': repr(v)})
            t.value(v, cls)
        for v in (True, False, None):
            t.value(v, 'const')
    elif kind == 'tables':
        # (vii) the tables themselves: same tags, same patterns, same first characters, loader vs dumper side and C classes
        ref = yaml.SafeLoader.yaml_implicit_resolvers
        names = ['SafeDumper', 'Loader', 'FullLoader', 'UnsafeLoader', 'Dumper'] + (['CSafeLoader', 'CSafeDumper', 'CLoader', 'CDumper', 'CFullLoader'] if yamlapi.HAVE_C else [])
        for n in names:
            tb = getattr(yaml, n).yaml_implicit_resolvers
            a = {ch: [(tg, rx.pattern) for tg, rx in lst] for ch, lst in ref.items()}
            b = {ch: [(tg, rx.pattern) for tg, rx in lst] for ch, lst in tb.items()}
            ctx.case(core.h64('table', n), True, ['table'])
            if a != b:
                ctx.violation({'class': n}, {'what': 'implicit resolver table differs from SafeLoader\'s', 'first_chars_only_here': sorted(set(b) - set(a), key=str), 'missing': sorted(set(a) - set(b), key=str)}, None)
        ctx.sample({'class': 'tables', 'compared': names})


def replay(case, ctx):
    t = T(ctx)
    if 'text' in case:
        t.text(case['text'], 'replay')
    elif 'value' in case:
        t.value(eval(case['value'], {'datetime': datetime, 'inf': float('inf'), 'nan': float('nan')}), 'replay')


def summarize(agg, tier):
    st = agg['stats']
    out = {'exhaustive': False, 'exhaustive_slice': 'all strings over %r up to length %d' % (ALPHA, 4 if tier == 'quick' else 5)}
    if not st.get('resolved'):
        out['_inconclusive'] = 'resolver was never evaluated'
    return out
