"""C19 - failures of the caller's stream or callbacks pass through cleanly (fault enumeration)."""
import errno
import random

import yaml

from .. import core, yamlapi, sigs
from ..gen import corpus, values as V
from ..mon import streams, confine
from ..ref import bisim

ID = 'C19'
LEVEL = 'fault_enumeration'
LEVEL_TEXT = ('Fault enumeration: for each case the fault-free run is recorded first (sequence of read()/write()/flush()/callback '
              'invocations); then the case is re-run once for EVERY invocation index i (all of them when N <= 400, else first/last 100 + 200 '
              'random) with that invocation raising a fresh exception object (Exception subclass, OSError, BaseException subclass in '
              'rotation). Oracle: the exception reaching the caller is that object; output written before the fault is a prefix of the '
              'fault-free output; documents delivered before the fault equal the fault-free ones; the package-state digest is unchanged; a '
              'reference load and dump right after give reference results. Both back-ends; thorough repeats the C side under the '
              'ASan+UBSan glue and -X dev.')
LEVEL_NOTE = 'Complete over the invocation indices of the cases in the corpus; the corpus of cases itself is a sample.'
TECHNIQUE = 'runtime monitoring with fault injection: exhaustive per-case failure-point enumeration on instrumented streams and callbacks'
DESIGN_REF = 'DESIGN.md section 3, C19'
RULE = ('cases: documents (one line .. several refill blocks, multi-document, corpus files) x short-read schedules x {scan,parse,compose_all,'
        'load_all} and values x options through instrumented streams, and loaders/dumpers with user constructor / multi-constructor / '
        'representer / multi-representer / YAMLObject callbacks; each x every invocation index. An evaluation is one injected fault; '
        'non-trivial = the fault was actually raised inside the library call; distinct by (case, index)')
ASSUMPTIONS = ['exceptions are injected at the caller-supplied boundary only (stream methods and registered callbacks)']
REFDOC = 'a: [1, 2.5, yes, ~, "s", 2001-01-01]\nb: &x {c: d}\ne: *x\n'
REFVAL = {'k': [1, 2.5, True, None, 's' * 50, {'n': {1, 2}}], 'z': 'a\nb'}


class XErr(Exception):
    pass


class XBase(BaseException):
    pass


class XYaml(yaml.YAMLError):
    pass


KINDS = [
    lambda m: XErr(m), lambda m: OSError(5, m), lambda m: XBase(m), lambda m: KeyboardInterrupt(),
    # builtin classes that library code is tempted to catch around a neighbouring operation
    lambda m: AttributeError(m), lambda m: TypeError(m), lambda m: ValueError(m), lambda m: KeyError(m), lambda m: IndexError(m),
    lambda m: UnicodeDecodeError('utf-8', b'\xff', 0, 1, m), lambda m: UnicodeEncodeError('utf-8', 'x', 0, 1, m),
    lambda m: RuntimeError(m), lambda m: ImportError(m), lambda m: LookupError(m),
    lambda m: XYaml(m), lambda m: yaml.MarkedYAMLError(problem=m), lambda m: yaml.reader.ReaderError('x', 0, 0, 'utf-8', m),
    lambda m: yaml.constructor.ConstructorError(None, None, m, None), lambda m: yaml.representer.RepresenterError(m),
    lambda m: yaml.emitter.EmitterError(m), lambda m: AssertionError(m), lambda m: NotImplementedError(m),
    # OS-level errors a stream really raises, with the errno values that invite a "retry" or "ignore"
    lambda m: OSError(errno.EINTR, m), lambda m: InterruptedError(errno.EINTR, m), lambda m: BlockingIOError(errno.EAGAIN, m), lambda m: TimeoutError(errno.ETIMEDOUT, m),
    lambda m: BrokenPipeError(errno.EPIPE, m), lambda m: ConnectionResetError(errno.ECONNRESET, m), lambda m: PermissionError(errno.EACCES, m),
    lambda m: EOFError(m), lambda m: RecursionError(m), lambda m: OverflowError(m), lambda m: BufferError(m), lambda m: UnicodeError(m), lambda m: SystemError(m),
]
NK = len(KINDS)
# StopIteration is only injected where no generator of the library's public API stands between the fault and the caller
# (dump / dump_all / emit / serialize_all and their callbacks): inside load_all / scan / parse / compose_all the interpreter
# itself rewrites it (PEP 479), which is not PyYAML's doing
KIND_STOP = NK
KINDS_ALL = KINDS + [lambda m: StopIteration(m)]


def exc_state(e):
    """What 'unchanged' means beyond identity: arguments, attributes, notes and text of the exception object."""
    try:
        attrs = sorted((k, repr(v)[:200]) for k, v in vars(e).items())
    except TypeError:
        attrs = None
    return (type(e), repr(e.args)[:300], attrs, tuple(getattr(e, '__notes__', ()) or ()), str(e)[:300], e.__cause__ is None)


def fresh_exc(i, kind=None):
    if kind == KIND_STOP:
        return KINDS_ALL[KIND_STOP]('injected %d' % i)
    return KINDS[(i if kind is None else kind) % NK]('injected %d' % i)


def kinds_at(i, N, special=False, dump_side=False):
    ks = _kinds_at(i, N, special)
    if dump_side and (special or i < 2 or i == N - 1 or i % 5 == 0):
        ks = ks + [KIND_STOP]
    return ks


def _kinds_at(i, N, special=False):
    """Exception kinds injected at invocation index i of N: one by rotation everywhere; every kind at the
    first two and the last invocation and at 'special' invocations (flush calls)."""
    if special or i < 2 or i == N - 1:
        return list(range(NK))
    return [i % NK]


def plan(tier, seed):
    q = tier == 'quick'
    n = 14
    specs = [{'kind': 'faults', 'shard': i, 'of': n, 'cext': 'plain', 'ncases': 600 if q else 2400} for i in range(n)]
    if not q:
        for i in range(6):
            specs.append({'kind': 'faults', 'shard': i, 'of': 6, 'cext': 'asan', 'ncases': 120, 'conly': True})
        specs.append({'kind': 'faults', 'shard': 0, 'of': 1, 'cext': 'plain', 'ncases': 100, 'conly': True, 'pyflags': ['-X', 'dev']})
    return specs


# ------------------------------------------------------------------------------------------------
def indices(N, r):
    if N <= 400:
        return list(range(N))
    s = set(range(100)) | set(range(N - 100, N))
    while len(s) < 400:
        s.add(r.randrange(N))
    return sorted(s)


def load_docs(r):
    """(text, label) documents for the read-side cases."""
    out = [('a: 1\n', 'tiny'), (REFDOC, 'ref'), ('- a\n' * 1500, 'block_6k'), ('k: v\n' * 3000 + '--- \n- x\n' * 200, 'multi_20k'),
           ('--- a\n--- b\n--- [c, d]\n... \n--- {e: f}\n', 'multidoc'), ('"' + 'word ' * 2000 + '"', 'long_scalar'),
           ('# comment\n' * 900 + 'a: b', 'comments'), ('[' + 'a, ' * 3000 + ']', 'flow_9k'), ('- ' + chr(0x4e2d) * 3000 + '\n- b\n', 'unicode_9k'),
           ('a: [1, 2\n', 'invalid_eof'), ('a: b\n' * 900 + ': : :\n', 'invalid_late')]
    files = [f for f in corpus.files(exts=('.data',))]
    r.shuffle(files)
    for name, raw in files[:25]:
        try:
            out.append((raw.decode('utf-8'), 'corpus:' + name))
        except UnicodeDecodeError:
            out.append((raw, 'corpus-bytes:' + name))
    return out


def run_read(op, lname, data, schedule, fail_at, exc):
    """Returns (status, exception-or-None, list of signatures delivered, stream)."""
    st = streams.ReadStream(data, schedule=schedule, fail_at=fail_at, exc=exc)
    got = []
    L = getattr(yaml, lname)
    try:
        if op == 'scan':
            for t in yaml.scan(st, Loader=L):
                got.append(sigs.tok_sig(t))
        elif op == 'parse':
            for e in yaml.parse(st, Loader=L):
                got.append(sigs.ev_sig(e))
        elif op == 'compose_all':
            for n in yaml.compose_all(st, Loader=L):
                got.append(sigs.node_sig(n))
        else:
            for d in yaml.load_all(st, Loader=L):
                got.append(bisim.sig(d))
        return 'ok', None, got, st
    except BaseException as e:
        if isinstance(e, (MemoryError, SystemExit)) or (isinstance(e, KeyboardInterrupt) and e is not exc):
            raise
        return 'exc', e, got, st


class Env:
    def __init__(self, ctx, conly):
        self.ctx = ctx
        self.conly = conly
        self.ref_load = {}
        self.ref_dump = {}
        self.lnames = [n for n in (['SafeLoader'] if not conly else []) + (['CSafeLoader'] if yamlapi.HAVE_C else [])]
        self.dnames = [n for n in (['SafeDumper'] if not conly else []) + (['CSafeDumper'] if yamlapi.HAVE_C else [])]
        for n in self.lnames:
            self.ref_load[n] = bisim.sig(yaml.load(REFDOC, Loader=getattr(yaml, n)))
        for n in self.dnames:
            self.ref_dump[n] = yaml.dump(REFVAL, Dumper=getattr(yaml, n))
        self.digest = confine.state_digest()

    def after(self, case, i):
        """Library left usable and unchanged."""
        ctx = self.ctx
        for n in self.lnames:
            try:
                s = bisim.sig(yaml.load(REFDOC, Loader=getattr(yaml, n)))
            except BaseException as e:
                s = 'EXC:' + type(e).__name__
            if s != self.ref_load[n]:
                ctx.violation(dict(case, index=i), {'what': 'reference load after the fault differs', 'loader': n, 'got': s[:200]}, None)
        for n in self.dnames:
            try:
                s = yaml.dump(REFVAL, Dumper=getattr(yaml, n))
            except BaseException as e:
                s = 'EXC:' + type(e).__name__
            if s != self.ref_dump[n]:
                ctx.violation(dict(case, index=i), {'what': 'reference dump after the fault differs', 'dumper': n, 'got': s[:200]}, None)
        d = confine.state_digest()
        if d != self.digest:
            ctx.violation(dict(case, index=i), {'what': 'library-global state changed by a failed call', 'changed': confine.digest_diff(self.digest, d)[:8]}, None)
            self.digest = d


def read_case(env, r, data, label, op, lname, schedule, only=None):
    ctx = env.ctx
    case = {'side': 'read', 'data': data if len(data) < 3000 else None, 'label': label, 'op': op, 'loader': lname, 'schedule': schedule}
    ctx.crumb(case)
    st0, e0, got0, s0 = run_read(op, lname, data, schedule, None, None)
    N = len(s0.calls)
    ctx.stat('read_cases')
    ctx.statmax('max:read_invocations', N)
    for i, kind in [(i, k) for i in (indices(N, r) if only is None else [only]) for k in kinds_at(i, N)]:
        exc = fresh_exc(i, kind)
        state0 = exc_state(exc)
        st, e, got, s = run_read(op, lname, data, schedule, i, exc)
        raised = len(s.calls) > i and s.calls[i][1] is None
        ctx.case(core.h64('r', label, op, lname, repr(schedule), i, kind), raised, ['read:' + op])
        ctx.stat('kind:' + type(exc).__name__)
        ctx.stat('faults_injected' if raised else 'fault_point_not_reached')
        if not raised:
            # the run ended (error or completion) before the i-th read: must equal the fault-free outcome
            if (st, got) != (st0, got0):
                ctx.violation(dict(case, index=i), {'what': 'run without reaching the fault point differs from the fault-free run'}, None)
            continue
        if st != 'exc' or e is not exc:
            ctx.violation(dict(case, index=i), {'what': 'the stream\'s exception did not reach the caller unchanged', 'injected': repr(exc),
                                                'got': 'no exception' if st != 'exc' else '%s: %s' % (type(e).__name__, str(e)[:150])}, None)
        elif exc_state(e) != state0:
            ctx.violation(dict(case, index=i), {'what': 'the stream\'s exception reached the caller as the same object but altered (arguments, attributes, notes or cause)',
                                                'before': repr(state0)[:300], 'after': repr(exc_state(e))[:300]}, None)
        if got != got0[:len(got)]:
            ctx.violation(dict(case, index=i), {'what': 'items delivered before the fault differ from the fault-free run', 'n': len(got)}, None)
        if len(s.calls) > i + 1:
            ctx.violation(dict(case, index=i), {'what': 'the stream was read again after its read() had raised', 'reads_after_the_fault': len(s.calls) - i - 1}, None)
        env.after(case, i)


def run_write(kind, dname, payload, opts, text, fail_at, exc):
    ws = streams.WriteStream(text=text, fail_at=fail_at, exc=exc)
    o = dict(opts)
    if not text:
        o.setdefault('encoding', 'utf-8')
    else:
        o['encoding'] = None
    D = getattr(yaml, dname)
    try:
        if kind == 'dump_all':
            yaml.dump_all(payload, ws, Dumper=D, **o)
        elif kind == 'emit':
            yaml.emit(payload, ws, Dumper=D, **{k: v for k, v in o.items() if k in ('canonical', 'indent', 'width', 'allow_unicode', 'line_break')})
        else:
            yaml.serialize_all(payload, ws, Dumper=D, **o)
        return 'ok', None, ws
    except BaseException as e:
        if isinstance(e, (MemoryError, SystemExit)) or (isinstance(e, KeyboardInterrupt) and e is not exc):
            raise
        return 'exc', e, ws


def write_case(env, r, kind, dname, mk, label, opts, text, only=None):
    ctx = env.ctx
    case = {'side': 'write', 'kind': kind, 'dumper': dname, 'label': label, 'opts': opts, 'text': text}
    ctx.crumb(case)
    st0, e0, w0 = run_write(kind, dname, mk(), opts, text, None, None)
    if st0 != 'ok':
        ctx.stat('write_case_unusable')
        return
    N = len(w0.ops)
    full = w0.written()
    ctx.stat('write_cases')
    ctx.statmax('max:write_invocations', N)
    for i, ek in [(i, k) for i in (indices(N, r) if only is None else [only]) for k in kinds_at(i, N, w0.ops[i][0] == 'f', dump_side=True)]:
        exc = fresh_exc(i, ek)
        state0 = exc_state(exc)
        payload = mk()
        st, e, w = run_write(kind, dname, payload, opts, text, i, exc)
        raised = len(w.ops) > i and w.ops[i][0] == 'x'
        ctx.case(core.h64('w', label, kind, dname, repr(opts), text, i, ek), raised, ['write:' + kind, 'write_op:' + w0.ops[i][0]])
        ctx.stat('kind:' + type(exc).__name__)
        ctx.stat('faults_injected' if raised else 'fault_point_not_reached')
        if not raised:
            continue
        if st != 'exc' or e is not exc:
            ctx.violation(dict(case, index=i), {'what': 'the stream\'s exception did not reach the caller unchanged', 'injected': repr(exc),
                                                'got': 'no exception' if st != 'exc' else '%s: %s' % (type(e).__name__, str(e)[:150])}, None)
        elif exc_state(e) != state0:
            ctx.violation(dict(case, index=i), {'what': 'the stream\'s exception reached the caller as the same object but altered (arguments, attributes, notes or cause)',
                                                'before': repr(state0)[:300], 'after': repr(exc_state(e))[:300]}, None)
        part = w.written()
        if part is not None and not full.startswith(part):
            ctx.violation(dict(case, index=i), {'what': 'output written before the fault is not a prefix of the fault-free output', 'written': repr(part[-80:])}, None)
        if i % 3 == 0 and kind == 'dump_all':
            # the very same value objects again, without a fault: the failed call must not have left anything behind that concerns them
            st2, e2, w2 = run_write(kind, dname, payload, opts, text, None, None)
            ctx.stat('same_value_redumps')
            if st2 != 'ok' or w2.written() != full:
                ctx.violation(dict(case, index=i), {'what': 'dumping the same value objects again after the failed call gives another text',
                                                    'got': repr(w2.written())[:200] if st2 == 'ok' else repr(e2)[:200]}, None)
        env.after(case, i)


# ------------------------------------------------------------------------------------------------
class CB:
    """Counting callbacks that fail at the k-th invocation."""

    def __init__(self):
        self.n = 0
        self.fail_at = None
        self.exc = None
        self.raised = False

    def tick(self):
        k = self.n
        self.n += 1
        if self.fail_at is not None and k == self.fail_at:
            self.raised = True
            raise self.exc


def callback_classes(cb):
    """Fresh subclasses (registrations stay local to them) wired to the counter cb."""
    out = {}
    for base in ['SafeLoader', 'Loader'] + (['CSafeLoader', 'CLoader'] if yamlapi.HAVE_C else []):
        L = type('L_' + base, (getattr(yaml, base),), {})

        def cons(loader, node, cb=cb):
            cb.tick()
            return ('c', loader.construct_scalar(node) if isinstance(node, yaml.ScalarNode) else None)

        def mcons(loader, suffix, node, cb=cb):
            cb.tick()
            return ('m', suffix)
        L.add_constructor('!c', cons)
        L.add_multi_constructor('!m:', mcons)
        out[base] = L
    for base in ['SafeDumper', 'Dumper'] + (['CSafeDumper', 'CDumper'] if yamlapi.HAVE_C else []):
        D = type('D_' + base, (getattr(yaml, base),), {})

        class P:
            def __init__(self, v):
                self.v = v

        class Q(P):
            pass

        class MBase:
            pass

        class MSub(MBase):
            pass

        def rep(dumper, data, cb=cb):
            cb.tick()
            return dumper.represent_scalar('!p', str(data.v))

        def mrep(dumper, data, cb=cb):
            cb.tick()
            return dumper.represent_sequence('!mb', [1, 2])
        D.add_representer(P, rep)
        D.add_multi_representer(MBase, mrep)
        out[base] = (D, P, MSub)
    # YAMLObject bound to the python Loader/Dumper subclasses
    LY = type('LY', (yaml.Loader,), {})
    DY = type('DY', (yaml.Dumper,), {})

    class YO(yaml.YAMLObject):
        yaml_tag = '!yo'
        yaml_loader = LY
        yaml_dumper = DY

        @classmethod
        def from_yaml(cls, loader, node, cb=cb):
            cb.tick()
            return super().from_yaml(loader, node)

        @classmethod
        def to_yaml(cls, dumper, data, cb=cb):
            cb.tick()
            return super().to_yaml(dumper, data)
    out['yobj'] = (LY, DY, YO)
    # application classes live as long as the application: the state digest walks __subclasses__(), and a class that is
    # garbage-collected in the middle of a later case would look like a change of library state
    _KEEP.append(out)
    return out


_KEEP = []


def callback_cases(env, r, only=None):
    ctx = env.ctx
    cb = CB()
    cl = callback_classes(cb)
    env.digest = confine.state_digest()          # the classes just defined are the application's doing
    doc = ''.join('- !c v%d\n- !m:s%d x\n- {k: !c w%d}\n' % (i, i, i) for i in range(12)) + '--- \n- !c second\n'
    jobs = []
    for base, L in cl.items():
        if isinstance(L, type) and base.endswith('Loader') and base != 'yobj':
            if env.conly and not base.startswith('C'):
                continue
            jobs.append(('load:' + base, lambda L=L: [bisim.sig(d, track_tuples=False) if False else repr(d) for d in yaml.load_all(doc, Loader=L)]))
    for base, v in cl.items():
        if isinstance(v, tuple) and base.endswith('Dumper'):
            if env.conly and not base.startswith('C'):
                continue
            D, P, MSub = v
            jobs.append(('dump:' + base, lambda D=D, P=P, MSub=MSub: yaml.dump_all([[P(i), MSub(), {'k': P(-i)}] for i in range(10)], Dumper=D)))
            # the same value objects in every run (a failed call must leave nothing behind that concerns them) ...
            same = [[P(i), MSub(), {'k': P(-i), 'm': {'n': [P(i + 100)]}}] for i in range(6)]
            jobs.append(('dumpsame:' + base, lambda D=D, same=same: yaml.dump_all(same, Dumper=D)))
            # ... and a caller's stream: open-ended documents (plain root scalars, a keep-chomped literal) before the one whose
            # representer - or the documents iterable itself - fails; what was written stays a prefix of the fault-free text
            holder = {}

            def gen_docs(P=P, cb=cb):
                for j, d in enumerate(['plain', [P(1)], 5, 'lit\n\n', {'k': P(2)}, 'tail', [P(3), P(4)]]):
                    cb.tick()
                    yield d

            def to_stream(D=D, holder=holder, gen_docs=gen_docs):
                ws = streams.WriteStream(text=True)
                holder['ws'] = ws
                yaml.dump_all(gen_docs(), ws, Dumper=D)
                return ws.written()
            jobs.append(('dumpstream:' + base, to_stream, holder))
    if not env.conly:
        LY, DY, YO = cl['yobj']

        def mk():
            o = YO()
            o.a = 1
            return o
        jobs.append(('yobj:load', lambda: repr([type(x).__name__ for x in yaml.load('- !yo {a: 1}\n- !yo {a: 2}\n- !yo {a: 3}\n', Loader=LY)])))
        jobs.append(('yobj:dump', lambda: yaml.dump([mk(), mk(), mk()], Dumper=DY)))
    for job in jobs:
        label, fn = job[0], job[1]
        holder = job[2] if len(job) > 2 else None
        case = {'side': 'callback', 'label': label}
        ctx.crumb(case)
        cb.n, cb.fail_at, cb.raised = 0, None, False
        ref = fn()
        N = cb.n
        ctx.stat('callback_cases')
        ctx.statmax('max:callback_invocations', N)
        for i, ek in [(i, k) for i in (range(N) if only is None else [only]) for k in kinds_at(i, N, i % 7 == 3, dump_side=label.startswith(('dump:', 'dumpsame:', 'yobj:dump')))]:       # (not dumpstream: its documents come from a generator of ours, PEP 479)
            exc = fresh_exc(i, ek)
            state0 = exc_state(exc)
            ctx.stat('kind:' + type(exc).__name__)
            cb.n, cb.fail_at, cb.exc, cb.raised = 0, i, exc, False
            try:
                fn()
                st, e = 'ok', None
            except BaseException as e2:
                if isinstance(e2, (MemoryError, SystemExit)) or (isinstance(e2, KeyboardInterrupt) and e2 is not exc):
                    raise
                st, e = 'exc', e2
            ctx.case(core.h64('cb', label, i, ek), cb.raised, ['callback:' + label.split(':')[0]])
            ctx.stat('faults_injected' if cb.raised else 'fault_point_not_reached')
            if cb.raised and (st != 'exc' or e is not exc):
                ctx.violation(dict(case, index=i), {'what': 'the callback\'s exception did not reach the caller unchanged', 'injected': repr(exc),
                                                    'got': 'no exception' if st != 'exc' else '%s: %s' % (type(e).__name__, str(e)[:150])}, None)
            elif cb.raised and exc_state(e) != state0:
                ctx.violation(dict(case, index=i), {'what': 'the callback\'s exception reached the caller as the same object but altered (arguments, attributes, notes or cause)',
                                                    'before': repr(state0)[:300], 'after': repr(exc_state(e))[:300]}, None)
            cb.fail_at = None
            if cb.raised and holder is not None:
                part = holder['ws'].written()
                ctx.stat('callback_prefix_checks')
                if part is not None and not ref.startswith(part):
                    ctx.violation(dict(case, index=i), {'what': 'text written to the caller\'s stream before the callback failed is not a prefix of the fault-free text', 'written': repr(part[-80:])}, None)
            if cb.raised and label.startswith('dumpsame:'):
                cb.n = 0
                ctx.stat('same_value_redumps')
                if fn() != ref:
                    ctx.violation(dict(case, index=i), {'what': 'dumping the same value objects again after the failed call gives another text'}, None)
            env.after(case, i)
        cb.n, cb.fail_at = 0, None
        if fn() != ref:
            ctx.violation(case, {'what': 'fault-free run after the faults differs from the first fault-free run'}, None)


SCHEDULES = [None, [1], [7], [100, 3, 1], [4096], [4095, 1], [1000]]


def all_cases(env, r, ncases):
    """Yield thunks for every (case) of this worker's corpus, in a fixed order."""
    docs = load_docs(r)
    cases = []
    lnames = env.lnames
    for text, label in docs:
        for lname in lnames:
            for op in ('load_all', 'scan', 'parse', 'compose_all'):
                sch = r.choice(SCHEDULES)
                if len(text) > 5000 and sch in ([1], [7]):
                    sch = [100, 3, 1]
                for form in ('str', 'bytes'):
                    data = text if form == 'str' or isinstance(text, bytes) else text.encode('utf-8')
                    if r.random() < 0.35:
                        cases.append(('read', data, label + ':' + form, op, lname, sch))
    for i in range(40):
        spec, cl = V.gen_spec(r, max_nodes=10)
        opts = {'default_flow_style': r.choice([None, True, False]), 'width': r.choice([None, 10, 80]), 'explicit_start': r.choice([None, True]),
                'allow_unicode': r.choice([None, True]), 'default_style': r.choice([None, None, '"', '|'])}
        for dname in env.dnames:
            for text in (True, False):
                if r.random() < 0.5:
                    cases.append(('write', 'dump_all', dname, spec, 'gval%d' % i, opts, text))
    for dname in env.dnames:
        big = {'nodes': [['list', list(range(1, 61))]] + [['s', 'word%d ' % k * 5] for k in range(60)], 'root': 0}
        cases.append(('write', 'dump_all', dname, big, 'big_list', {}, True))
        cases.append(('write', 'dump_all', dname, big, 'big_list', {'explicit_end': True, 'explicit_start': True}, False))
    r.shuffle(cases)
    return cases[:ncases]


def run(spec, ctx):
    env = Env(ctx, spec.get('conly', False))
    r = random.Random(core.h64('C19', spec['seed']))
    cases = all_cases(env, r, spec['ncases'])
    mine = [c for k, c in enumerate(cases) if k % spec['of'] == spec['shard']]
    r2 = random.Random(core.h64('C19', spec['seed'], spec['shard']))
    for c in mine:
        if c[0] == 'read':
            _, data, label, op, lname, sch = c
            if len(ctx.samples) < 2:
                ctx.sample({'side': 'read', 'label': label, 'op': op, 'loader': lname, 'schedule': sch, 'len': len(data)})
            read_case(env, r2, data, label, op, lname, sch)
        else:
            _, kind, dname, vs, label, opts, text = c
            if len(ctx.samples) < 3:
                ctx.sample({'side': 'write', 'label': label, 'dumper': dname, 'opts': opts, 'text_stream': text})
            write_case(env, r2, kind, dname, (lambda vs=vs: [V.build(vs), 'second document', {'third': [1, 2]}]), label, opts, text)
    if spec['shard'] % 4 == 0:
        callback_cases(env, r2)


def replay(case, ctx):
    env = Env(ctx, ctx.spec.get('conly', False))
    r = random.Random(1)
    i = case.get('index')
    if case['side'] == 'read' and case.get('data') is not None:
        read_case(env, r, case['data'], case['label'], case['op'], case['loader'], case['schedule'], only=i)
    elif case['side'] == 'callback':
        callback_cases(env, r, only=i)
    else:
        # regenerate the case list and pick by label
        rr = random.Random(core.h64('C19', ctx.spec.get('seed', 1)))
        for c in all_cases(env, rr, 10 ** 6):
            if c[0] == 'write' and case['side'] == 'write' and c[4] == case['label'] and c[2] == case['dumper'] and c[6] == case['text'] and c[5] == case['opts']:
                write_case(env, r, c[1], c[2], (lambda vs=c[3]: [V.build(vs), 'second document', {'third': [1, 2]}]), c[4], c[5], c[6], only=i)
                break
            if c[0] == 'read' and case['side'] == 'read' and c[2] == case['label'] and c[3] == case['op'] and c[4] == case['loader'] and c[5] == case['schedule']:
                read_case(env, r, c[1], c[2], c[3], c[4], c[5], only=i)
                break


def summarize(agg, tier):
    st = agg['stats']
    out = {'faults_injected': st.get('faults_injected', 0), 'exhaustive': False,
           'per_case_enumeration': 'every invocation index for N <= 400; first/last 100 + 200 random beyond'}
    if not st.get('faults_injected'):
        out['_inconclusive'] = 'no fault was injected'
    return out
