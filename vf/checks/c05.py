"""C05 - emitting then parsing returns the same events; ill-formed event streams are rejected with EmitterError only."""
import itertools
import random

import yaml

from .. import core, yamlapi
from ..gen import events as EV, strings as S
from ..ref import evgrammar

ID = 'C05'
LEVEL = 'exploration'
LEVEL_TEXT = ('Exploration with an exhaustive slice: well-formed event streams (0-3 documents, nesting <= 4, hostile G-str scalars, every '
              'style request, tags none / "!" / local / core / URI with non-ASCII / handle-defined incl. non-ASCII prefixes, anchors, '
              'aliases, collection keys, %YAML/%TAG) are emitted by both emitters under generated option points (canonical, indent, '
              'width, allow_unicode, line_break incl. invalid values) and parsed back by both parsers; an event-relation monitor '
              'compares class sequence, anchors, aliases, scalar values character for character, tags (elision only where the '
              'event\'s implicit flag for the style actually chosen permits it), %YAML version, %TAG map and the explicit flags '
              '(False->True only). Ill-formed streams: all sequences over the ten event classes up to length 5 (quick) / 6 '
              '(thorough) and attribute faults: any exception must be EmitterError; for the pure-Python emitter a complete stream is '
              'accepted iff an independent recogniser of the event grammar accepts it.')
LEVEL_NOTE = ('Held on the streams generated; scalar and flow styles chosen by the emitter are not compared (they are the emitter\'s choice).')
TECHNIQUE = 'runtime monitoring: event-relation oracle over emit->parse executions (4 emitter/parser pairs) + event-grammar recogniser over enumerated ill-formed streams'
DESIGN_REF = 'DESIGN.md section 3, C05'
RULE = ('a case is (event stream spec, options) run through 2 emitters x 2 parsers, or one enumerated event-class sequence through 2 '
        'emitters; non-trivial = the stream has at least one document; distinct by hash of (spec, options)')
ASSUMPTIONS = ['no lone surrogates in scalar values or tags', 'tag None only with implicit (True, True): otherwise the event is not emittable in every style']
KINDS = ['SS', 'SE', 'DS', 'DE', 'AL', 'SC', 'QS', 'QE', 'MS', 'ME']
KIND_NAME = {'SS': 'StreamStart', 'SE': 'StreamEnd', 'DS': 'DocumentStart', 'DE': 'DocumentEnd', 'AL': 'Alias', 'SC': 'Scalar', 'QS': 'SequenceStart',
             'QE': 'SequenceEnd', 'MS': 'MappingStart', 'ME': 'MappingEnd'}
DEFAULT = {'SS': ['SS'], 'SE': ['SE'], 'DS': ['DS', False, None, None], 'DE': ['DE', False], 'AL': ['AL', 'a'], 'SC': ['SC', None, None, [True, True], 'v', None],
           'QS': ['QS', None, None, True, None], 'QE': ['QE'], 'MS': ['MS', None, None, True, None], 'ME': ['ME']}


def plan(tier, seed):
    q = tier == 'quick'
    specs = [{'kind': 'wf', 'shard': i, 'n': 8000 if q else 60000, 'cext': 'plain'} for i in range(8 if q else 14)]
    nex = 5 if q else 14
    specs += [{'kind': 'ill', 'shard': i, 'of': nex, 'maxlen': 5 if q else 6, 'cext': 'plain'} for i in range(nex)]
    specs.append({'kind': 'faults', 'shard': 0, 'cext': 'plain'})
    specs += [{'kind': 'pos', 'shard': i, 'of': 2, 'cext': 'plain'} for i in range(2)]
    return specs


def pos_streams(shard, of):
    """An unusual character at every position where the emitter's choice of style meets a lexical decision of the reader:
    first character of the stream (root scalar, first key, first item), start / end of keys, values and items, alone;
    in the first and in a later document; every requested style; with and without allow_unicode."""
    k = 0
    sc = lambda v, st: ['SC', None, None, [True, True], v, st]
    for ch in S.ODD + S.PYSPACE + ['-', '?', ':', '#', '%', '!', '&', '*', '|', '>', "'", '"', '@', '`', ',', '[', '{', ' ', '...', '---', '<<', '=', '~']:
        for v in (ch + 'x', ch, 'x' + ch, ch + ' x', 'x ' + ch + ' y', ch + '\nx', 'x\n' + ch, 'x' + ch + 'y'):
            for st in (None, "'", '"', '|', '>'):
                shapes = [[sc(v, st)],
                          [['MS', None, None, True, False], sc(v, st), sc(v, st), sc('k2', None), sc(v, st), ['ME']],
                          [['QS', None, None, True, False], sc(v, st), sc('b', None), sc(v, st), ['QE']],
                          [['QS', None, None, True, True], sc(v, st), ['MS', None, None, True, True], sc(v, st), sc(v, st), ['ME'], ['QE']]]
                for si, body in enumerate(shapes):
                    for au in (None, True):
                        for second in (False, True):
                            k += 1
                            if k % of != shard or (second and si not in (0, 1)):
                                continue
                            docs = [['DS', False, None, None]] + body + [['DE', False]]
                            if second:
                                docs = [['DS', False, None, None], sc('first', None), ['DE', False]] + docs
                            yield [['SS']] + docs + [['SE']], ({'allow_unicode': True} if au else {})


# ---------------------------------------------------------------------------------------------
def plain_style(s):
    return s in (None, '')


def relate(E, P):
    """None if the parsed events P are what the emitted events E allow, else a message."""
    if len(E) != len(P):
        return 'event count differs: emitted %d, parsed %d (%s | %s)' % (len(E), len(P), ' '.join(type(e).__name__[:-5] for e in E)[:200],
                                                                       ' '.join(type(e).__name__[:-5] for e in P)[:200])
    for i, (e, p) in enumerate(zip(E, P)):
        if type(e) is not type(p):
            return 'event %d: %s emitted, %s parsed' % (i, type(e).__name__, type(p).__name__)
        n = type(e).__name__
        if n == 'AliasEvent':
            if e.anchor != p.anchor:
                return 'event %d: alias %r became %r' % (i, e.anchor, p.anchor)
        elif n == 'ScalarEvent':
            if e.anchor != p.anchor:
                return 'event %d: anchor %r became %r' % (i, e.anchor, p.anchor)
            if e.value != p.value:
                return 'event %d: scalar value %r came back as %r (style chosen: %r)' % (i, e.value[:120], p.value[:120], p.style)
            if p.tag != e.tag:
                # elision: no tag where the event's flag for the style actually chosen allows it, or the non-specific tag '!'
                # on a non-plain scalar (LibYAML's spelling of "resolve this like a plain scalar") where the plain flag allows it
                ok = e.tag is not None and ((p.tag is None and bool(e.implicit[0 if plain_style(p.style) else 1])) or
                                            (p.tag == '!' and not plain_style(p.style) and bool(e.implicit[0]) and bool(p.implicit[0])))
                if not ok:
                    return 'event %d: scalar tag %r came back as %r (implicit %r, style chosen %r)' % (i, e.tag, p.tag, tuple(e.implicit), p.style)
        elif n in ('SequenceStartEvent', 'MappingStartEvent'):
            if e.anchor != p.anchor:
                return 'event %d: anchor %r became %r' % (i, e.anchor, p.anchor)
            if p.tag != e.tag:
                if not (p.tag is None and e.tag is not None and e.implicit):
                    return 'event %d: collection tag %r came back as %r (implicit %r)' % (i, e.tag, p.tag, e.implicit)
        elif n == 'DocumentStartEvent':
            ev = tuple(e.version) if e.version else None
            pv = tuple(p.version) if p.version else None
            if ev != pv:
                return 'event %d: %%YAML version %r came back as %r' % (i, ev, pv)
            if (dict(e.tags) if e.tags else {}) != (dict(p.tags) if p.tags else {}):
                return 'event %d: %%TAG directives %r came back as %r' % (i, e.tags, p.tags)
            if e.explicit and not p.explicit:
                return 'event %d: explicit document start lost' % i
        elif n == 'DocumentEndEvent':
            if e.explicit and not p.explicit:
                return 'event %d: explicit document end lost' % i
    return None


def emit(spec, opts, dname):
    return yaml.emit(EV.build(spec), Dumper=getattr(yaml, dname), **opts)


def f7c_symptom(a, b):
    """libyaml folded writer: spaces of more-indented lines come back as line breaks (see C02)."""
    from .c02 import f7c_symptom as f
    return f(a, b)


FLOWIND = __import__('re').compile(r'(?<![\w"\'])![^\s<>"\']*[,\[\]{}]')


def f9a_shape(spec):
    """An implicit document (no directives) whose root is an empty scalar that may be written plain and untagged."""
    for i, e in enumerate(spec[:-1]):
        if e[0] == 'DS' and not e[1] and not e[2] and not e[3]:
            n = spec[i + 1]
            if n[0] == 'SC' and n[4] == '' and n[1] is None and n[5] in (None, '') and (n[2] is None or n[3][0]):
                return True
    return False


def classify(spec, opts, dname, lname, msg, E, P, text=None):
    # two libyaml mechanisms may meet in one stream (a folded more-indented line inside a document that redefines '!' / '!!'):
    # take the values that show the exact F7c read-back out first, classify the rest, and name both
    if dname == 'CDumper' and P is not None and len(E) == len(P):
        hits = [i for i, (e, p) in enumerate(zip(E, P)) if isinstance(e, yaml.ScalarEvent) and isinstance(p, yaml.ScalarEvent) and e.value != p.value
                and p.style == '>' and f7c_symptom(e.value, p.value)]
        if hits:
            E2 = [yaml.ScalarEvent(e.anchor, e.tag, e.implicit, P[i].value, style=e.style) if i in hits else e for i, e in enumerate(E)]
            m2 = relate(E2, P)
            if m2 is None:
                return 'F7c'
            rest = classify(spec, opts, dname, lname, m2, E2, P, text)
            return ('F7c+' + rest) if rest and 'F7c' not in rest else rest
    # F9a: libyaml writes nothing at all for an implicit document whose root is an empty plain scalar
    if dname == 'CDumper' and not opts.get('canonical') and f9a_shape(spec):
        if P is None or len(P) < len(E):
            return 'F9a'
    # F15c: libyaml abbreviates with a redefined '!' / '!!' handle
    if dname == 'CDumper' and P is not None and len(P) == len(E):
        redefined = False
        bad_outside = False
        any_diff = False
        for e, p in zip(E, P):
            if isinstance(e, yaml.DocumentStartEvent):
                redefined = bool(e.tags) and any(h in ('!', '!!') for h in e.tags)
                if (dict(e.tags) if e.tags else {}) != (dict(p.tags) if p.tags else {}):
                    bad_outside = bad_outside or not redefined
                    any_diff = True
            elif hasattr(e, 'tag') and e.tag != getattr(p, 'tag', None):
                one = relate([e], [p])
                if one:
                    any_diff = True
                    if not redefined:
                        bad_outside = True
        if any_diff and not bad_outside:
            neutral = []
            for e, p in zip(E, P):
                neutral.append(p if (hasattr(e, 'tag') or isinstance(e, yaml.DocumentStartEvent)) else e)
            if relate(neutral, P) is None:
                return 'F15c'
    # F16: flow indicators in a tag shorthand (written unescaped by both emitters, rejected / cut short by libyaml's scanner)
    if lname == 'CLoader' and any(getattr(e, 'tag', None) and any(c in e.tag for c in ',[]{}') for e in E):
        if text is not None and FLOWIND.search(text if isinstance(text, str) else ''):
            return 'F16'
    if dname == 'CDumper' and P is not None and len(E) == len(P):
        # F7c: every value difference is the folded-style symptom
        diffs = [(e, p) for e, p in zip(E, P) if isinstance(e, yaml.ScalarEvent) and isinstance(p, yaml.ScalarEvent) and e.value != p.value]
        if diffs and all(p.style == '>' and f7c_symptom(e.value, p.value) for e, p in diffs):
            rest = relate([e if not isinstance(e, yaml.ScalarEvent) else yaml.ScalarEvent(e.anchor, e.tag, e.implicit, p.value, style=e.style) for e, p in zip(E, P)], P)
            if rest is None:
                return 'F7c'
    return None


def wf_case(spec, opts, ctx, pairs=None):
    E = EV.build(spec)
    for dname in ['Dumper', 'CDumper']:
        if dname.startswith('C') and not yamlapi.HAVE_C:
            continue
        case = {'spec': spec, 'opts': opts, 'D': dname}
        ctx.crumb(case)
        try:
            st, text = core.guarded(lambda: emit(spec, opts, dname), 10)
            if st == 'hang':
                ctx.hang(case, {'what': 'emit did not finish within 10 s, twice'})
                continue
        except yaml.YAMLError as e:
            ctx.violation(case, {'what': 'well-formed event stream rejected by the emitter', 'stage': 'emit', 'exc': yamlapi.exc_sig(e)}, None)
            continue
        except Exception as e:
            ctx.violation(case, {'what': 'emitter raised a non-YAML exception', 'stage': 'emit', 'exc': {'cls': type(e).__name__}, 'msg': str(e)[:200]},
                          classify_exc(spec, dname, e))
            continue
        ctx.stat('emits')
        for lname in ['Loader', 'CLoader']:
            if lname.startswith('C') and not yamlapi.HAVE_C:
                continue
            if pairs and (dname, lname) not in pairs:
                continue
            who = dict(case, L=lname)
            try:
                P = list(yaml.parse(text, Loader=getattr(yaml, lname)))
            except yaml.YAMLError as e:
                ctx.violation(who, {'what': 'emitter output rejected by the parser', 'stage': 'parse', 'exc': yamlapi.exc_sig(e), 'text': text[:1500]},
                              classify(spec, opts, dname, lname, None, E, None, text))
                continue
            ctx.stat('roundtrips')
            msg = relate(E, P)
            if msg:
                ctx.violation(who, {'what': 'parsed events differ from the emitted ones', 'stage': 'compare', 'diff': msg[:600], 'text': text[:1500]},
                              classify(spec, opts, dname, lname, msg, E, P, text))
            else:
                for p in P:
                    if isinstance(p, yaml.ScalarEvent):
                        ctx.stat('chosen_style:' + (p.style or 'plain'))


def classify_exc(spec, dname, e):
    return None


# ---------------------------------------------------------------------------------------------
def sim_queue_left(kinds):
    """libyaml's look-ahead rule (yaml_emitter_need_more_events): does an unexamined tail stay queued at the end?"""
    q = []

    def need_more():
        if not q:
            return True
        acc = {'DS': 1, 'QS': 2, 'MS': 3}.get(q[0])
        if acc is None:
            return False
        if len(q) > acc:
            return False
        level = 0
        for k in q:
            if k in ('SS', 'DS', 'QS', 'MS'):
                level += 1
            elif k in ('SE', 'DE', 'QE', 'ME'):
                level -= 1
            if not level:
                return False
        return True
    for k in kinds:
        q.append(k)
        while not need_more():
            q.pop(0)
    return len(q)


def ill_case(kinds, ctx):
    spec = [DEFAULT[k] for k in kinds]
    names = [KIND_NAME[k] for k in kinds]
    g = evgrammar.check(names)
    complete = bool(kinds) and kinds[-1] == 'SE'
    for dname in ['Dumper', 'CDumper']:
        if dname.startswith('C') and not yamlapi.HAVE_C:
            continue
        out = None
        try:
            text = emit(spec, {}, dname)
            out = 'accepted'
        except yaml.emitter.EmitterError:
            out = 'EmitterError'
        except yaml.YAMLError as e:
            out = 'other-yaml:' + type(e).__name__
        except Exception as e:
            out = 'nonyaml:' + type(e).__name__
        ctx.stat('ill_runs')
        ctx.stat('ill:%s:%s' % (dname, out.split(':')[0]))
        case = {'kinds': list(kinds), 'D': dname}
        if out.startswith(('other-yaml', 'nonyaml')):
            ctx.violation(case, {'what': 'ill-formed event stream rejected with %s instead of EmitterError' % out.split(':')[1], 'events': ' '.join(names)}, None)
        elif dname == 'Dumper' and complete:
            if (out == 'accepted') != (g is None):
                ctx.violation(case, {'what': 'pure-Python emitter %s a complete stream that the event grammar %s' % (
                    'accepts' if out == 'accepted' else 'rejects', 'accepts' if g is None else 'rejects (%s)' % g), 'events': ' '.join(names)}, None)
        elif dname == 'CDumper' and complete and out == 'accepted' and g is not None:
            mech = 'F10' if sim_queue_left(kinds) else None
            ctx.violation(case, {'what': 'LibYAML emitter accepts a complete ill-formed stream', 'events': ' '.join(names), 'grammar': g}, mech)


FAULTS = [
    ('tag_none_not_implicit', [['SS'], ['DS', False, None, None], ['SC', None, None, [False, False], 'v', None], ['DE', False], ['SE']]),
    ('seq_tag_none_not_implicit', [['SS'], ['DS', False, None, None], ['QS', None, None, False, None], ['QE'], ['DE', False], ['SE']]),
    ('alias_none', [['SS'], ['DS', False, None, None], ['AL', None], ['DE', False], ['SE']]),
    ('alias_empty', [['SS'], ['DS', False, None, None], ['AL', ''], ['DE', False], ['SE']]),
    ('anchor_space', [['SS'], ['DS', False, None, None], ['SC', 'a b', None, [True, True], 'v', None], ['DE', False], ['SE']]),
    ('anchor_bracket', [['SS'], ['DS', False, None, None], ['QS', 'a]', None, True, None], ['QE'], ['DE', False], ['SE']]),
    ('anchor_empty', [['SS'], ['DS', False, None, None], ['MS', '', None, True, None], ['ME'], ['DE', False], ['SE']]),
    ('tag_empty', [['SS'], ['DS', False, None, None], ['SC', None, '', [False, False], 'v', None], ['DE', False], ['SE']]),
    ('version_2_0', [['SS'], ['DS', True, [2, 0], None], ['SC', None, None, [True, True], 'v', None], ['DE', False], ['SE']]),
    ('version_0_1', [['SS'], ['DS', True, [0, 1], None], ['SC', None, None, [True, True], 'v', None], ['DE', False], ['SE']]),
    ('handle_no_bang', [['SS'], ['DS', True, None, {'e!': 'tag:x:'}], ['SC', None, None, [True, True], 'v', None], ['DE', False], ['SE']]),
    ('handle_no_trailing_bang', [['SS'], ['DS', True, None, {'!e': 'tag:x:'}], ['SC', None, None, [True, True], 'v', None], ['DE', False], ['SE']]),
    ('handle_empty', [['SS'], ['DS', True, None, {'': 'tag:x:'}], ['SC', None, None, [True, True], 'v', None], ['DE', False], ['SE']]),
    ('handle_bad_char', [['SS'], ['DS', True, None, {'!e e!': 'tag:x:'}], ['SC', None, None, [True, True], 'v', None], ['DE', False], ['SE']]),
    ('prefix_empty', [['SS'], ['DS', True, None, {'!e!': ''}], ['SC', None, None, [True, True], 'v', None], ['DE', False], ['SE']]),
    ('two_stream_starts', [['SS'], ['SS'], ['SE']]),
    ('event_after_stream_end2', [['SS'], ['SE'], ['SE']]),
]


PYCLASS = [chr(0xe9), chr(0xb2), chr(0xb9), chr(0x2460), chr(0x663), chr(0xff12), chr(0x3b1), chr(0xaa), chr(0xff21), chr(0x4e2d), chr(0x1d7d8), chr(0xa0), chr(0x2003), '.', ',', '[', '*', '&', '!', ':']


def all_faults():
    """FAULTS plus names (anchors, aliases, tag handles) made of characters that Python's str predicates accept as letters or
    digits and YAML's name grammar does not."""
    out = list(FAULTS)
    for w in PYCLASS:
        for nm in (w, 'a' + w, w + '1', 'a' + w + 'b'):
            out.append(('anchor_char', [['SS'], ['DS', False, None, None], ['SC', nm, None, [True, True], 'v', None], ['DE', False], ['SE']]))
            out.append(('anchor_char_seq', [['SS'], ['DS', False, None, None], ['QS', nm, None, True, True], ['QE'], ['DE', False], ['SE']]))
            out.append(('alias_char', [['SS'], ['DS', False, None, None], ['AL', nm], ['DE', False], ['SE']]))
            if w not in '!':
                out.append(('handle_char', [['SS'], ['DS', True, None, {'!' + nm + '!': 'tag:x:'}], ['SC', None, None, [True, True], 'v', None], ['DE', False], ['SE']]))
    return out


def faults(ctx):
    for name, spec in all_faults():
        for dname in ['Dumper', 'CDumper']:
            if dname.startswith('C') and not yamlapi.HAVE_C:
                continue
            for opts in ({}, {'canonical': True}):
                case = {'fault': name, 'spec': spec, 'D': dname, 'opts': opts}
                ctx.crumb(case)
                ctx.case(core.h64('fault', name, dname, repr(opts)), True, ['fault:' + name])
                try:
                    emit(spec, opts, dname)
                    out = 'accepted'
                except yaml.emitter.EmitterError:
                    out = 'EmitterError'
                except yaml.YAMLError as e:
                    out = 'other-yaml:' + type(e).__name__
                except Exception as e:
                    out = 'nonyaml:' + type(e).__name__
                ctx.stat('fault:%s:%s' % (dname, out.split(':')[0]))
                ctx.stat('ill_runs')
                if out.startswith(('other-yaml', 'nonyaml')):
                    mech = 'F18' if (dname == 'CDumper' and name == 'alias_none' and out == 'nonyaml:TypeError') else None
                    ctx.violation(case, {'what': 'attribute fault rejected with %s instead of EmitterError' % out.split(':')[1]}, mech)
                elif out == 'accepted' and dname == 'Dumper':
                    ctx.violation(case, {'what': 'pure-Python emitter accepted an event with an invalid attribute'}, None)


def run(spec, ctx):
    k = spec['kind']
    if k == 'wf':
        r = random.Random(core.h64('C05', spec['seed'], spec['shard']))
        for i in range(spec['n']):
            classes = set()
            s = EV.Gen(r, classes).stream()
            opts = EV.gen_opts(r)
            ctx.case(core.h64(repr(s), repr(sorted(opts.items(), key=str))), len(s) > 2, sorted(classes))
            for kk, v in opts.items():
                ctx.stat('opt:%s=%r' % (kk, v))
            if i < 2:
                ctx.sample({'spec': s[:12], 'opts': opts})
            wf_case(s, opts, ctx)
    elif k == 'ill':
        n = 0
        for L in range(0, spec['maxlen'] + 1):
            for combo in itertools.product(KINDS, repeat=L):
                if n % spec['of'] == spec['shard']:
                    ctx.case(core.h64('ill', combo), L > 0, ['ill_len%d' % L])
                    ctx.crumb({'kinds': list(combo)})
                    ill_case(combo, ctx)
                n += 1
        ctx.stat('exhaustive_shards_done')
        ctx.sample({'class': 'all event-class sequences', 'maxlen': spec['maxlen']})
    elif k == 'pos':
        n = 0
        for s2, opts in pos_streams(spec['shard'], spec['of']):
            ctx.case(core.h64(repr(s2), repr(opts)), True, ['pos'])
            wf_case(s2, opts, ctx)
            n += 1
        ctx.sample({'class': 'unusual character at every lexically decisive position', 'streams': n})
    else:
        faults(ctx)


def replay(case, ctx):
    ctx.case(core.h64(repr(case)), True)
    if 'kinds' in case:
        ill_case(tuple(case['kinds']), ctx)
    elif 'fault' in case:
        faults(ctx)
    else:
        wf_case(case['spec'], case['opts'], ctx, pairs=[(case['D'], case['L'])] if case.get('L') else None)


def summarize(agg, tier):
    st = agg['stats']
    out = {'exhaustive': False, 'exhaustive_slice': 'all sequences over the ten event classes up to length %d (complete iff exhaustive_shards_done == planned)' % (5 if tier == 'quick' else 6),
           'styles_chosen_by_the_emitters': {k.split(':', 1)[1]: v for k, v in st.items() if k.startswith('chosen_style:')}}
    if not st.get('roundtrips') or not st.get('ill_runs'):
        out['_inconclusive'] = 'no emit->parse round trip or no ill-formed stream was executed'
    return out
