"""C14 - mappings, merge keys, sets, ordered maps: safe_load against an independent evaluation of the
YAML 1.1 rules on the generator's own model of the document."""
import random

import yaml

from .. import core, yamlapi
from ..gen import gdoc
from ..gen.gdoc import S, Q, M, A, Doc, CORE

ID = 'C14'
LEVEL = 'exploration'
LEVEL_TEXT = ('Exploration: documents are rendered from a model of mappings with explicit keys (incl. keys equal across types: 1, 1.0, '
              'true), duplicate keys, single and list merges, inline and aliased merge sources, nested merge sources that merge '
              'themselves, one anchored source merged into several mappings and also used as a plain value, self-merge, quoted '
              '"<<" and "=" keys, and !!set / !!omap / !!pairs nodes; a reference evaluator (ref rules: own entries over merged ones, '
              'earlier mappings of a merge list over later ones, a later merge key over an earlier one, merges applied recursively, '
              'last value among equal keys, first key object kept) computes the expected value from the model alone; safe_load of '
              'both back-ends must equal it (type-strict values; key order and key types when the mapping has no merge key). '
              'Every ill-shaped variant (unhashable key or set member, scalar merge value, merge list with a non-mapping, !!set on a '
              'sequence, !!omap/!!pairs on a mapping or with items that are not one-entry mappings) must end in ConstructorError.')
LEVEL_NOTE = ('Held on the documents generated. Merge keys inside !!set and merges that reach an enclosing, still open mapping are not '
              'generated (YAML 1.1 does not define them).')
TECHNIQUE = 'runtime monitoring: reference-model oracle (independent merge/omap/set evaluator on the generator model) over generated documents, both back-ends'
DESIGN_REF = 'DESIGN.md section 3, C14'
RULE = ('a case is one document; non-trivial = it has a merge key, a duplicate key, a set/omap/pairs node or a planted ill-shaped node; '
        'distinct by text hash')
ASSUMPTIONS = []

# key / value atoms: (text, style, python value)
KEYS = [('a', 'plain', 'a'), ('b', 'plain', 'b'), ('c', 'plain', 'c'), ('d', 'plain', 'd'), ('1', 'plain', 1), ('1.0', 'plain', 1.0), ('true', 'plain', True),
        ('1', 'single', '1'), ('<<', 'single', '<<'), ('<<', 'double', '<<'), ('=', 'plain', '='), ('~', 'plain', None), ('null', 'double', 'null'),
        ('2', 'plain', 2), ('0', 'plain', 0), ('false', 'plain', False), ('x y', 'plain', 'x y'), ('e', 'double', 'e')]
NOVALUE = [k for k in KEYS if k[0] != '=']      # '=' is the string '=' only as a mapping key (or set member)
VALS = NOVALUE + [('v%d' % i, 'plain', 'v%d' % i) for i in range(8)] + [('%d' % i, 'plain', i) for i in range(10, 16)] + [('', 'single', ''), ('1.5', 'plain', 1.5)]


class Atom:
    def __init__(self, t):
        self.text, self.style, self.value = t


class Seq:
    def __init__(self, items):
        self.items = items


class Coll:
    """kind: 'set' (members: atoms), 'omap' / 'pairs' (entries: (atom, value))"""

    def __init__(self, kind, entries):
        self.kind, self.entries = kind, entries


class Ref:
    def __init__(self, target):
        self.target = target          # a Map with an anchor


class Map:
    def __init__(self):
        self.entries = []             # ('kv', Atom, value) | ('merge', [sources], is_list)
        self.anchor = None
        self.flow = False

    def has_merge(self):
        return any(e[0] == 'merge' for e in self.entries)


# ---------------------------------------------------------------------------------------------
# reference evaluator (the YAML 1.1 rules, on the model)

def ev_value(v):
    if isinstance(v, Atom):
        return v.value
    if isinstance(v, Seq):
        return [ev_value(x) for x in v.items]
    if isinstance(v, Ref):
        return ev_map(v.target)
    if isinstance(v, Map):
        return ev_map(v)
    if v.kind == 'set':
        s = set()
        for a in v.entries:
            s.add(a.value)
        return s
    return [(k.value, ev_value(x)) for k, x in v.entries]


def ev_map(m, _self=None):
    result = {}
    # lowest priority first: merge keys in document order (a later merge key wins), inside a list the later mapping first
    for e in m.entries:
        if e[0] != 'merge':
            continue
        srcs = e[1] if not e[2] else list(reversed(e[1]))
        for s in srcs:
            t = s.target if isinstance(s, Ref) else s
            if t is m:
                src = own_entries(m)          # self-merge contributes nothing the mapping does not define itself
            else:
                src = list(ev_map(t).items())
            for k, v in src:
                result[k] = v
    for k, v in own_entries(m):
        result[k] = v
    return result


def own_entries(m):
    return [(e[1].value, ev_value(e[2])) for e in m.entries if e[0] == 'kv']


def deep_eq(exp, got, path='$'):
    """None if equal (type-strict on atoms), else a message."""
    if isinstance(exp, dict):
        if type(got) is not dict:
            return '%s: expected a dict, got %s' % (path, type(got).__name__)
        if len(exp) != len(got):
            return '%s: expected %d entries %r, got %d %r' % (path, len(exp), list(exp)[:8], len(got), list(got)[:8])
        for k, v in exp.items():
            if k not in got:
                return '%s: key %r missing (got keys %r)' % (path, k, list(got)[:8])
            m = deep_eq(v, got[k], '%s[%r]' % (path, k))
            if m:
                return m
        return None
    if isinstance(exp, (list, tuple)):
        if type(got) is not type(exp) or len(got) != len(exp):
            return '%s: expected %s of %d, got %r' % (path, type(exp).__name__, len(exp), repr(got)[:80])
        for i, (a, b) in enumerate(zip(exp, got)):
            m = deep_eq(a, b, '%s[%d]' % (path, i))
            if m:
                return m
        return None
    if isinstance(exp, set):
        if type(got) is not set or exp != got:
            return '%s: expected set %r, got %r' % (path, exp, got)
        return None
    if type(exp) is not type(got) or exp != got:
        return '%s: expected %r, got %r' % (path, exp, got)
    return None


def order_check(m, got, path='$'):
    """Key order and key object types of merge-free mappings = document order with the first occurrence of equal keys."""
    if isinstance(m, Ref):
        m = m.target
    if isinstance(m, Map):
        if type(got) is not dict:
            return None
        if not m.has_merge():
            exp = {}
            for k, v in own_entries(m):
                exp[k] = None
            ek = [(type(k).__name__, k) for k in exp]
            gk = [(type(k).__name__, k) for k in got]
            if ek != gk:
                return '%s: key order/types %r, document order says %r' % (path, gk, ek)
        winner = {}
        for e in m.entries:
            if e[0] == 'kv':
                winner[e[1].value] = e          # the last occurrence among equal keys is the one that is loaded
        for k, e in winner.items():
            if isinstance(e[2], (Map, Ref, Seq)) and k in got:
                r = order_check(e[2], got[k], '%s[%r]' % (path, k))
                if r:
                    return r
    elif isinstance(m, Seq) and isinstance(got, list):
        for i, (x, g) in enumerate(zip(m.items, got)):
            r = order_check(x, g, '%s[%d]' % (path, i))
            if r:
                return r
    return None


# ---------------------------------------------------------------------------------------------
class ListRef(Seq):
    """An alias to an anchored merge list, used as a plain value: the list of the merged mappings, in its written order."""

    def __init__(self, items, name):
        Seq.__init__(self, items)
        self.name = name


class Gen:
    def __init__(self, r):
        self.r = r
        self.lists = []             # (anchor name, sources) of anchored merge lists
        self.anchored = []          # closed, anchored Maps (usable as merge source / plain value)
        self.n = 0
        self.classes = set()

    def atom(self, pool):
        return Atom(self.r.choice(pool))

    def value(self, depth):
        r = self.r
        c = r.random()
        if c < 0.5 or depth >= 3:
            return self.atom(VALS)
        if c < 0.6 and self.anchored:
            self.classes.add('source_as_plain_value')
            return Ref(r.choice(self.anchored))
        if c < 0.64 and self.lists:
            self.classes.add('merge_list_as_plain_value')
            name, srcs = r.choice(self.lists)
            return ListRef(srcs, name)
        if c < 0.75:
            return self.map(depth + 1)
        if c < 0.83:
            return Seq([self.value(depth + 1) for _ in range(r.randint(0, 3))])
        kind = r.choice(['set', 'omap', 'pairs'])
        self.classes.add(kind)
        if kind == 'set':
            return Coll('set', [self.atom(KEYS) for _ in range(r.randint(0, 4))])
        if kind == 'omap':
            ks = r.sample(NOVALUE, r.randint(0, 4))
            return Coll('omap', [(Atom(k), self.value(depth + 1)) for k in ks])
        return Coll('pairs', [(self.atom(NOVALUE), self.value(depth + 1)) for _ in range(r.randint(0, 4))])

    def source(self, depth):
        """A merge source: alias to an anchored map, or an inline map (maybe anchored for later reuse)."""
        r = self.r
        if self.anchored and r.random() < 0.65:
            self.classes.add('merge_alias')
            return Ref(r.choice(self.anchored))
        self.classes.add('merge_inline')
        return self.map(depth + 1, inline_source=True)

    def map(self, depth, inline_source=False):
        r = self.r
        m = Map()
        m.flow = r.random() < 0.4 or inline_source and r.random() < 0.7
        n = r.choice([0, 1, 2, 3, 3, 4, 6])
        seen = []
        for _ in range(n):
            c = r.random()
            if c < 0.28 and depth < 3:
                if self.lists and r.random() < 0.25:
                    # the same (anchored) merge list again: every use must see it as it is written
                    name, srcs = r.choice(self.lists)
                    m.entries.append(('merge', srcs, True, '*' + name))
                    self.classes.add('merge_list_reused')
                elif r.random() < 0.35:
                    srcs = [self.source(depth) for _ in range(r.randint(0, 3))]
                    if srcs and all(isinstance(x, Ref) for x in srcs) and r.random() < 0.5:
                        self.n += 1
                        name = 'l%d' % self.n
                        m.entries.append(('merge', srcs, True, name))
                        self.lists.append((name, srcs))
                        self.classes.add('merge_list_anchored')
                    else:
                        m.entries.append(('merge', srcs, True))
                    self.classes.add('merge_list')
                else:
                    m.entries.append(('merge', [self.source(depth)], False))
                    self.classes.add('merge_single')
                if sum(1 for e in m.entries if e[0] == 'merge') > 1:
                    self.classes.add('two_merge_keys')
            else:
                k = self.atom(KEYS)
                if any(k.value == s for s in seen):
                    self.classes.add('duplicate_key')
                seen.append(k.value)
                m.entries.append(('kv', k, self.value(depth)))
        if r.random() < (0.6 if depth <= 1 or inline_source else 0.25):
            self.n += 1
            m.anchor = 'm%d' % self.n
            if r.random() < 0.08 and depth < 3:
                m.entries.insert(r.randint(0, len(m.entries)), ('merge', [Ref(m)], False))     # self-merge
                self.classes.add('self_merge')
            self.anchored.append(m)
        return m


def to_gdoc(v, inflow=False):
    if isinstance(v, Atom):
        return S(v.text, v.style)
    if isinstance(v, Ref):
        return A(v.target.anchor)
    if isinstance(v, ListRef):
        return A(v.name)
    if isinstance(v, Seq):
        return Q([to_gdoc(x, True) for x in v.items], True)
    if isinstance(v, Coll):
        fl = inflow or True
        if v.kind == 'set':
            return M([(S(a.text, a.style), S('null', 'plain')) for a in v.entries], fl, CORE + 'set')
        return Q([M([(S(k.text, k.style), to_gdoc(x, True))], True) for k, x in v.entries], fl, CORE + v.kind)
    fl = inflow or v.flow
    pairs = []
    for e in v.entries:
        if e[0] == 'kv':
            pairs.append((S(e[1].text, e[1].style), to_gdoc(e[2], fl)))
        else:
            srcs = [to_gdoc(s, True) if not isinstance(s, Map) else to_gdoc(s, True) for s in e[1]]
            if len(e) > 3 and e[3].startswith('*'):
                pairs.append((S('<<', 'plain'), A(e[3][1:])))
            elif len(e) > 3:
                pairs.append((S('<<', 'plain'), Q(srcs, True, None, e[3])))
            else:
                pairs.append((S('<<', 'plain'), Q(srcs, True) if e[2] else srcs[0]))
    return M(pairs, fl, None, v.anchor)


# ---------------------------------------------------------------------------------------------
ILL = [('unhashable_key_seq', '{[a]: b}'), ('unhashable_key_map', '{{a: b}: c}'), ('unhashable_key_block', '? [a, b]\n: c'), ('unhashable_key_alias', '- &l [a]\n- {*l : v}'),
       ('unhashable_set_member', '!!set {? [a]}'), ('unhashable_set_member_map', '!!set\n? {a: b}\n'), ('merge_scalar', '{<<: x, a: 1}'), ('merge_scalar_alias', '- &s text\n- {<<: *s}'),
       ('merge_list_scalar', '{<<: [{a: 1}, x]}'), ('merge_list_seq', '{<<: [[a]]}'), ('merge_null', '{<<: ~}'), ('merge_int', 'x:\n  <<: 12\n'),
       ('merge_nested_bad', '- &m {<<: y}\n- {<<: *m}'), ('set_on_seq', '!!set [a, b]'), ('set_on_scalar', '!!set x'), ('omap_on_map', '!!omap {a: b}'),
       ('omap_on_scalar', '!!omap x'), ('omap_item_scalar', '!!omap [a]'), ('omap_item_seq', '!!omap [[a, b]]'), ('omap_item_two', '!!omap [{a: 1, b: 2}]'),
       ('omap_item_empty', '!!omap [{}]'), ('pairs_on_map', '!!pairs {a: b}'), ('pairs_item_scalar', '!!pairs [a]'), ('pairs_item_two', '!!pairs [{a: 1, b: 2}]'),
       ('pairs_item_empty', '!!pairs [{}]'), ('unhashable_omap_key_is_fine_control', '!!pairs [{[a]: b}]'),
       ('set_as_key', '? !!set {a}\n: v'), ('set_as_flow_key', '{!!set {a}: v}'), ('set_in_set', '!!set\n? !!set {a}\n'), ('set_alias_key', '- &s !!set {a, b}\n- {*s : v}'),
       ('set_alias_member', '- &s !!set {a}\n- !!set {*s : null}'), ('omap_as_key', '? !!omap [a: 1]\n: v'), ('pairs_as_key', '? !!pairs [a: 1]\n: v'),
       ('empty_seq_key', '{[]: v}'), ('empty_map_key', '{{}: v}'), ('set_key_with_merge', '- &m {x: 1}\n- {<<: *m, !!set {a}: v}'), ('nested_unhashable_deep', '{a: {b: {[c]: d}}}'),
       ('set_on_empty_scalar', 's: !!set\n'), ('set_on_empty_quoted', '!!set ""'), ('set_on_empty_seq', '!!set []'), ('omap_on_empty_map', '!!omap {}'), ('omap_on_empty_scalar', 'o: !!omap\n'),
       ('pairs_on_empty_map', '!!pairs {}'), ('pairs_on_empty_scalar', '!!pairs ""'), ('merge_empty_value', 'x:\n  <<:\n  a: 1\n'), ('merge_empty_quoted', '{<<: "", a: 1}'),
       ('merge_list_empty_item', '{<<: [{a: 1}, ""]}'), ('merge_list_of_empty_seq', '{<<: [[]]}'), ('set_member_empty_seq', '!!set {? []}'),
       ('omap_item_empty_tagged', '!!omap [!!map {}]'), ('omap_item_null', '!!omap [~]'), ('pairs_item_null', '!!pairs [~]'), ('merge_list_empty_ok_control', '{<<: [], a: 1}')]


def check_text(text, ctx, case, expected=None, model=None, want_error=False, loaders=('SafeLoader', 'CSafeLoader')):
    for lname in yamlapi.loaders(list(loaders)):
        who = dict(case, loader=lname)
        try:
            st, got = core.guarded(lambda: yaml.load(text, Loader=getattr(yaml, lname)), 10)
            if st == 'hang':
                ctx.hang(who, {'what': 'loading did not finish within 10 s, twice: hang suspected'})
                continue
            err = None
        except yaml.constructor.ConstructorError as e:
            err = e
        except yaml.YAMLError as e:
            ctx.violation(who, {'what': 'unexpected YAML error class', 'exc': yamlapi.exc_sig(e)}, None)
            continue
        except RecursionError:
            ctx.violation(who, {'what': 'RecursionError'}, None)
            continue
        except Exception as e:
            ctx.violation(who, {'what': 'non-YAML exception', 'exc': type(e).__name__, 'msg': str(e)[:200]}, None)
            continue
        ctx.stat('loads')
        if want_error:
            if err is None:
                ctx.violation(who, {'what': 'ill-shaped node accepted', 'result': repr(got)[:200]}, None)
            else:
                ctx.stat('ill_shaped_rejected')
            continue
        if err is not None:
            ctx.violation(who, {'what': 'well-formed document rejected', 'exc': yamlapi.exc_sig(err)}, None)
            continue
        if expected is not None:
            m = deep_eq(expected, got)
            if m:
                ctx.violation(who, {'what': 'loaded value differs from the YAML 1.1 rules', 'diff': m[:500], 'expected': repr(expected)[:400], 'got': repr(got)[:400]}, None)
                continue
            if model is not None:
                o = order_check(model, got)
                if o:
                    ctx.violation(who, {'what': 'key order / key objects of a merge-free mapping differ from document order', 'diff': o[:400]}, None)
            ctx.stat('values_compared')


def model_case(r, ctx, i):
    g = Gen(r)
    top = Seq([g.map(1) for _ in range(r.randint(1, 5))])
    # second use of every source: the flattening rewrites shared nodes in place
    if g.anchored and r.random() < 0.7:
        for _ in range(r.randint(1, 3)):
            m2 = Map()
            m2.entries.append(('merge', [Ref(r.choice(g.anchored))], False))
            if r.random() < 0.5:
                m2.entries.append(('kv', g.atom(KEYS), g.atom(VALS)))
            top.items.append(m2 if r.random() < 0.7 else Ref(r.choice(g.anchored)))
            g.classes.add('source_reused')
    expected = ev_value(top)
    root = Q([to_gdoc(x) for x in top.items], False)
    text = gdoc.Render(r, r.choice(['\n', '\n', '\r\n']), comments=False).stream([Doc(root)])[0]
    case = {'kind': 'model', 'text': text, 'expected': repr(expected)[:1500]}
    ctx.crumb(case)
    nt = bool(g.classes & {'merge_single', 'merge_list', 'duplicate_key', 'set', 'omap', 'pairs'})
    ctx.case(core.h64(text), nt, sorted(g.classes))
    if i < 2:
        ctx.sample({'text': text[:500], 'expected': repr(expected)[:300]})
    check_text(text, ctx, case, expected, top)


# keys that only the full / unsafe loaders can build: a tuple is hashable only if its items are
ILL_FULL = [('tuple_of_list_key', '? !!python/tuple [[a]]\n: v'), ('tuple_of_map_key', '{!!python/tuple [{a: b}]: v}'), ('tuple_of_set_key', '? !!python/tuple [!!set {a}]\n: v'),
            ('nested_tuple_key', '? !!python/tuple [!!python/tuple [[a]]]\n: v'), ('tuple_of_list_set_member', '!!set\n? !!python/tuple [[a]]\n'),
            ('tuple_key_is_fine_control', '? !!python/tuple [a, 1]\n: v'), ('tuple_alias_key', '- &t !!python/tuple [[a]]\n- {*t : v}')]


def ill_case(r, ctx, i):
    if i % 5 == 4:
        name, frag = ILL_FULL[(i // 5) % len(ILL_FULL)]
        wrap = r.choice(['%s', '- ok\n- %s']) if '\n' not in frag else '%s'
        text = wrap % frag
        want_error = not name.endswith('_control')
        case = {'kind': 'ill', 'shape': name, 'text': text, 'want_error': want_error, 'loaders': ['FullLoader', 'CFullLoader', 'UnsafeLoader', 'CUnsafeLoader']}
        ctx.crumb(case)
        ctx.case(core.h64(text), True, ['ill:' + name])
        check_text(text, ctx, case, want_error=want_error, loaders=case['loaders'])
        return
    name, frag = ILL[i % len(ILL)]
    wrap = r.choice(['%s', '- ok\n- %s', 'k: %s', '- {a: 1}\n- [%s]'])
    if '\n' in frag:
        wrap = '%s'
    text = wrap % frag
    want_error = not name.endswith('_control')
    case = {'kind': 'ill', 'shape': name, 'text': text, 'want_error': want_error}
    ctx.crumb(case)
    ctx.case(core.h64(text), True, ['ill:' + name])
    check_text(text, ctx, case, want_error=want_error)


def run(spec, ctx):
    r = random.Random(core.h64('C14', spec['seed'], spec['kind'], spec['shard']))
    for i in range(spec['n']):
        if spec['kind'] == 'model':
            model_case(r, ctx, i)
        else:
            ill_case(r, ctx, i)


def plan(tier, seed):
    q = tier == 'quick'
    specs = [{'kind': 'model', 'shard': i, 'n': 5000 if q else 80000, 'cext': 'plain'} for i in range(12 if q else 14)]
    specs.append({'kind': 'ill', 'shard': 0, 'n': 600 if q else 6000, 'cext': 'plain'})
    return specs


def replay(case, ctx):
    ctx.case(core.h64(repr(case)), True)
    if case.get('kind') == 'ill':
        check_text(case['text'], ctx, case, want_error=case['want_error'], loaders=case.get('loaders') or ('SafeLoader', 'CSafeLoader'))
    else:
        # the model is not serialised: both back-ends must agree with each other and with the recorded expectation text
        res = {}
        for lname in yamlapi.loaders(['SafeLoader', 'CSafeLoader']):
            try:
                res[lname] = repr(yaml.load(case['text'], Loader=getattr(yaml, lname)))
            except Exception as e:
                res[lname] = 'EXC ' + type(e).__name__
        exp = case.get('expected')
        for k, v in res.items():
            if exp and len(exp) < 1500 and v != exp:
                ctx.violation(dict(case, loader=k), {'what': 'loaded value differs from the recorded expectation (repr comparison in replay)', 'got': v[:600], 'expected': exp[:600]}, None)


def summarize(agg, tier):
    st = agg['stats']
    out = {'values_compared': st.get('values_compared', 0), 'ill_shaped_rejected': st.get('ill_shaped_rejected', 0)}
    if not st.get('values_compared'):
        out['_inconclusive'] = 'the reference evaluator compared nothing'
    return out
