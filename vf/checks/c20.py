"""C20 - work (interpreter-level function calls) grows linearly with input size."""
import math
import random
import sys

import yaml

from .. import core

ID = 'C20'
LEVEL = 'exploration'
LEVEL_TEXT = ('Exploration over a catalogue of size-parameterised families (about 45 load, 20 dump): for sizes n, 2n, 4n (thorough: up to '
              '16n, random compositions, log-log slope) the number of call + c_call profile events during safe_load_all / safe_dump in the '
              'pure-Python pipeline is measured (sys.setprofile; deterministic, independent of machine load) and each doubling must cost '
              'at most 2 x 1.10. Queue/buffer high-water marks from method hooks are recorded as supplementary evidence.' + ' The catalogue also has one long run inside a single token or line for every scalar style, indentation, comment, anchor, alias, tag and directive (about 100 load and 40 dump families in all).')
LEVEL_NOTE = ('Counts function calls, the property\'s own unit: work done inside one C call (list.pop(0), slicing, str.join) is outside the '
              'metric and only visible in the recorded high-water marks. Families outside the catalogue are not covered.')
TECHNIQUE = 'runtime monitoring: sys.setprofile call counting over doubling input sizes, per family'
DESIGN_REF = 'DESIGN.md section 3, C20'
RULE = ('catalogue families x sizes (n chosen per family so that calls(n) >= 120000, beyond the 1024-character simple-key horizon and several 4096-unit refills); a case is one (family, size) measurement; non-trivial = '
        'the measurement completed without error; distinct by (family, size)')
ASSUMPTIONS = ['pure-Python pipeline only (the property names interpreter-level calls)', 'tolerance 10% per doubling; fixed overhead < 1% by construction of n']
EPS = 0.10
MIN_CALLS = 120000

LOAD = {
    'plain_long': lambda n: 'a ' * n + 'z',
    'plain_multiline': lambda n: 'w' + '\n word' * n,
    'single_long': lambda n: "'" + 'a b ' * n + "'",
    'single_quotes': lambda n: "'" + "it''s " * n + "'",
    'double_long': lambda n: '"' + 'a b ' * n + '"',
    'double_escapes': lambda n: '"' + '\\n\\x41\\u263a\\t' * n + '"',
    'double_multiline': lambda n: '"' + 'a\n  ' * n + 'z"',
    'double_continued': lambda n: '"' + 'a\\\n  ' * n + 'z"',
    'literal': lambda n: '|\n' + '  line\n' * n,
    'literal_blank_runs': lambda n: '|\n' + ('  x\n' + '\n' * 3) * n,
    'literal_keep': lambda n: '|+\n  x\n' + '\n' * n,
    'folded': lambda n: '>\n' + '  word word\n' * n,
    'folded_more_indented': lambda n: '>\n' + '  a\n    b\n' * n,
    'folded_blank': lambda n: '>\n' + '  a\n\n' * n,
    'block_seq': lambda n: '- a\n' * n,
    'block_map': lambda n: ''.join('k%d: v\n' % i for i in range(n)),
    'flow_seq': lambda n: '[' + 'a, ' * n + ']',
    'flow_map': lambda n: '{' + ''.join('k%d: v, ' % i for i in range(n)) + '}',
    'flow_seq_multiline': lambda n: '[\n' + ' a,\n' * n + ']',
    'flow_nested_items': lambda n: '[' + '[a, {b: c}], ' * n + ']',
    'nested_seq_map': lambda n: '- k: v\n  l: [1, 2]\n' * n,
    'many_docs': lambda n: '--- a\n' * n,
    'many_docs_end': lambda n: '--- a\n...\n' * n,
    'many_docs_directives': lambda n: '%YAML 1.1\n%TAG !e! tag:yaml.org,2002:\n--- !e!str a\n...\n' * n,
    'anchors': lambda n: ''.join('- &a%d x\n' % i for i in range(n)),
    'aliases': lambda n: '- &a x\n' + '- *a\n' * n,
    'alias_containers': lambda n: '- &a [1, 2]\n' + '- *a\n' * n,
    'comments': lambda n: '# comment line\n' * n + 'a',
    'one_long_comment': lambda n: '# ' + 'c' * (n * 10) + '\na',
    'trailing_comments': lambda n: ''.join('k%d: v # c\n' % i for i in range(n)),
    'blank_runs': lambda n: 'a: 1\n' + '\n' * (n * 5) + 'b: 2',
    'space_runs': lambda n: 'a: ' + ' ' * (n * 10) + 'b',
    'trailing_space_runs': lambda n: 'a: b' + ' ' * (n * 10) + '\nc: d',
    'long_keys': lambda n: ''.join('k' * 1000 + '%d: v\n' % i for i in range(max(1, n // 20))),
    'keys_1020': lambda n: ''.join('%03d' % (i % 1000) + 'k' * 1017 + ': v\n' for i in range(max(1, n // 20))),
    'quoted_keys': lambda n: ''.join('"k%d": v\n' % i for i in range(n)),
    'explicit_keys': lambda n: ''.join('? a%d\n: v\n' % i for i in range(n)),
    'complex_keys': lambda n: ''.join('? "a%d\n  b"\n: [v, w]\n' % i for i in range(n)),
    'tags': lambda n: '- !!str a\n- !<tag:yaml.org,2002:int> 1\n- !!seq [c]\n' * n,
    'tags_pct': lambda n: '- !!s%74%72 a\n' * n,
    'merges': lambda n: '- &b {a: 1, b: 2}\n' + '- {<<: *b, c: 2}\n' * n,
    'merge_lists': lambda n: '- &b {a: 1}\n- &c {d: 1}\n' + '- {<<: [*b, *c], e: 2}\n' * n,
    # two dimensions growing together (merged mapping x own keys, merge list length x own keys, ...)
    'merge_big_both': lambda n: 'b: &b\n' + ''.join('  m%d: 1\n' % i for i in range(n)) + 'x:\n  <<: *b\n' + ''.join('  o%d: 2\n' % i for i in range(n)),
    'merge_big_overlap': lambda n: 'b: &b\n' + ''.join('  k%d: 1\n' % i for i in range(n)) + 'x:\n  <<: *b\n' + ''.join('  k%d: 2\n' % i for i in range(n)),
    'merge_long_list': lambda n: ''.join('- &m%d {a%d: 1}\n' % (i, i) for i in range(n)) + '- <<: [' + ', '.join('*m%d' % i for i in range(n)) + ']\n' + ''.join('  o%d: 2\n' % i for i in range(n)),
    'merge_chain_bounded': lambda n: ''.join('- &c%d {<<: %s, k%d: v}\n' % (i, ('*c%d' % (i - 1)) if i % 12 else '{z: 1}', i) for i in range(n)),
    'dup_keys': lambda n: ''.join('k%d: v\n' % (i % 7) for i in range(n)),
    'many_tag_directives': lambda n: ''.join('%%TAG !h%d! tag:yaml.org,2002:\n' % i for i in range(n)) + '---\n' + ''.join('- !h%d!str v\n' % i for i in range(n)),
    'anchors_and_aliases': lambda n: ''.join('- &a%d x\n' % i for i in range(n)) + ''.join('- *a%d\n' % i for i in range(n)),
    'pairs_big': lambda n: '!!pairs\n' + ''.join('- k%d: v\n' % (i % 5) for i in range(n)),
    'flow_seq_values_long_keys': lambda n: ''.join('"key %d": [v, {a: b}]\n' % i for i in range(n)),
    'aliases_to_big_seq': lambda n: '- &b [' + ', '.join('x%d' % i for i in range(n)) + ']\n' + '- *b\n' * n,
    'aliases_to_big_map': lambda n: 'b: &b\n' + ''.join('  k%d: v\n' % i for i in range(n)) + 'r:\n' + '- *b\n' * n,
    'aliases_to_nested': lambda n: '- &b\n' + ''.join('  - [a, {k: %d}]\n' % i for i in range(n)) + ''.join('- {x: *b}\n' for i in range(n)),
    'empty_flow_items': lambda n: '[' + '[], ' * n + '{}]',
    'empty_quoted_items': lambda n: '[' + '"", ' * n + "'']",
    'alias_items_one_line': lambda n: '- &a x\n- [' + '*a, ' * n + '*a]',
    'deep_bounded': lambda n: ('- ' * 20 + 'a\n') * n,
    'sets': lambda n: '!!set\n' + ''.join('? a%d\n' % i for i in range(n)),
    'omap': lambda n: '!!omap\n' + ''.join('- k%d: v\n' % i for i in range(n)),
    'typed_scalars': lambda n: '- 12345\n- 1.5e3\n- 2001-01-01\n- 2001-12-14t21:59:43.10-05:00\n- yes\n- ~\n- 0x1F\n- 1:30\n' * n,
    'binary': lambda n: '- !!binary aGVsbG8gd29ybGQ=\n' * n,
    'crlf_lines': lambda n: ''.join('a%d: b\r\n' % i for i in range(n)),
    'nel_lines': lambda n: ''.join('a%d: b' % i + chr(0x85) for i in range(n)),
    'flow_plain_long': lambda n: '[' + 'a ' * n + ']',
    'unicode_text': lambda n: '- ' + (chr(0x4e2d) + chr(0x1F600) + chr(0xe9) + ' ') * n,
    'indentless_seq': lambda n: 'k:\n' + '- a\n' * n,
    'empty_values': lambda n: ''.join('k%d:\n' % i for i in range(n)),
    # one long run inside a single line / token (a scan that looks ahead per character is quadratic here)
    'literal_deep_indent': lambda n: 'k: |\n' + ' ' * (n * 5) + 'text\n',
    'literal_leading_space_line': lambda n: 'k: |\n' + ' ' * (n * 5) + '\n' + ' ' * (n * 5) + 'text\n',
    'folded_deep_indent': lambda n: 'k: >\n' + ' ' * (n * 5) + 'text\n' + ' ' * (n * 5) + 'more\n',
    'literal_many_space_lines': lambda n: '|\n' + '   \n' * n + '    x\n',
    'literal_explicit_indent_spaces': lambda n: '|2\n' + '  ' + ' ' * (n * 5) + 'x\n',
    'plain_inner_spaces': lambda n: 'a' + ' ' * (n * 10) + 'b',
    'single_inner_spaces': lambda n: "'a" + ' ' * (n * 10) + "b'",
    'double_inner_spaces': lambda n: '"a' + ' ' * (n * 10) + 'b"',
    'double_space_lines': lambda n: '"a' + (' ' * 40 + '\n') * n + 'b"',
    'single_blank_lines': lambda n: "'a" + '\n' * (n * 5) + "b'",
    'flow_space_runs': lambda n: '[a,' + ' ' * (n * 10) + 'b]',
    'tab_runs': lambda n: '"a' + '\t' * (n * 10) + 'b"',
    'comment_after_spaces': lambda n: 'a: b' + ' ' * (n * 10) + '# c\n',
    'deep_indent_line': lambda n: 'a:\n' + ' ' * (n * 5) + 'b: c\n',
    'long_anchor': lambda n: '&' + 'a' * (n * 10) + ' x',
    'long_alias': lambda n: '- &' + 'a' * (n * 10) + ' x\n- *' + 'a' * (n * 10) + '\n',
    'long_tag': lambda n: '!' + 't' * (n * 10) + ' x',
    'long_verbatim_tag': lambda n: '!<tag:' + 't' * (n * 10) + '> x',
    'long_tag_pct': lambda n: '!' + '%74' * (n * 3) + ' x',
    'long_tag_directive': lambda n: '%TAG !e! tag:' + 'x' * (n * 10) + '\n--- !e!a b\n',
    'long_unknown_directive': lambda n: '%FOO ' + 'x' * (n * 10) + '\n--- a\n',
    'long_sexagesimal': lambda n: '1' + ':30' * (n * 2),
    'long_binary': lambda n: '!!binary ' + 'aGVsbG8g' * n,
    'document_end_comments': lambda n: '--- a\n...\n' + '# c\n' * n + '--- b\n',
    'bom_runs': lambda n: 'a: b\n' + (chr(0xFEFF) + '\n') * 0 + '# ' + chr(0xFEFF) * (n * 5) + '\n',
}

DUMP = {
    'list_ints': (lambda n: list(range(n)), {}),
    'list_strs': (lambda n: ['s%d' % i for i in range(n)], {}),
    'dict_sorted': (lambda n: {'k%d' % i: i for i in range(n)}, {}),
    'dict_unsorted': (lambda n: {'k%d' % i: i for i in range(n)}, {'sort_keys': False}),
    'set_strs': (lambda n: {'k%d' % i for i in range(n)}, {}),
    'nested': (lambda n: [{'a': [1, 2], 'b': {'c': 'd'}} for _ in range(n)], {}),
    'flow_list': (lambda n: list(range(n)), {'default_flow_style': True}),
    'flow_dict': (lambda n: {'k%d' % i: i for i in range(n)}, {'default_flow_style': True}),
    'str_plain': (lambda n: 'word ' * n + 'z', {}),
    'str_single': (lambda n: 'word ' * n + 'z', {'default_style': "'"}),
    'str_double': (lambda n: 'word ' * n + 'z', {'default_style': '"'}),
    'str_literal': (lambda n: 'line\n' * n, {'default_style': '|'}),
    'str_folded': (lambda n: 'word word\n' * n, {'default_style': '>'}),
    'str_escapes': (lambda n: '\x07\x00' * n + chr(0x263a) * n, {}),
    'str_unicode_allowed': (lambda n: (chr(0x4e2d) + ' ') * n, {'allow_unicode': True}),
    'str_multiline_plain': (lambda n: 'a\nb ' * n, {}),
    'shared': (lambda n: (lambda x: [x] * n)([1, 2]), {}),
    'many_anchors': (lambda n: (lambda xs: xs + xs)([[i] for i in range(n)]), {}),
    'many_anchors_dicts': (lambda n: (lambda xs: {'a': xs, 'b': list(reversed(xs))})([{'k': i} for i in range(n)]), {}),
    'many_shared_dates': (lambda n: (lambda ds: ds + ds)([__import__('datetime').date(2000 + i % 900, 1, 1 + i % 28) for i in range(n)]), {}),
    'bytes': (lambda n: b'x' * (n * 10), {}),
    'long_keys': (lambda n: {('k' * 200 + str(i)): i for i in range(max(1, n // 4))}, {}),
    'floats_dates': (lambda n: [1.5, 1e17, float('inf')] * n, {}),
    'canonical': (lambda n: [{'a': i} for i in range(n)], {'canonical': True}),
    'width_small': (lambda n: 'word ' * n + 'z', {'width': 10}),
    'indent9': (lambda n: [[i, [i]] for i in range(n)], {'indent': 9}),
    'many_docs': (lambda n: list(range(n)), {'_all': True}),
    'str_space_run_plain': (lambda n: 'a' + ' ' * (n * 10) + 'b', {}),
    'str_space_run_double': (lambda n: 'a' + ' ' * (n * 10) + 'b', {'default_style': '"', 'width': 30}),
    'str_space_run_folded': (lambda n: 'a' + ' ' * (n * 10) + 'b\n', {'default_style': '>', 'width': 30}),
    'str_leading_spaces_literal': (lambda n: ' ' * (n * 10) + 'b\n', {'default_style': '|'}),
    'str_breaks_run': (lambda n: 'a' + '\n' * (n * 10) + 'b', {}),
    'str_breaks_run_folded': (lambda n: 'a' + '\n' * (n * 10) + 'b\n', {'default_style': '>'}),
    'str_quotes_run': (lambda n: "'" * (n * 10), {}),
    'str_astral': (lambda n: chr(0x1F600) * (n * 5), {}),
    'long_tag': (lambda n: __import__('yaml').ScalarNode('!' + 't' * (n * 10), 'x'), {'_serialize': True}),
    'first_child_big': (lambda n: {'items': list(range(n)), 'z': 1}, {}),
    'first_item_big': (lambda n: [list(range(n)), 1], {}),
    'first_key_big_flow': (lambda n: [[[i] for i in range(n)], 1], {'default_flow_style': True}),
}


class Counter:
    def __init__(self):
        self.n = 0

    def prof(self, frame, event, arg):
        if event == 'call' or event == 'c_call':
            self.n += 1


def measure_load(text):
    c = Counter()
    sys.setprofile(c.prof)
    try:
        for _ in yaml.load_all(text, Loader=yaml.SafeLoader):
            pass
    except yaml.constructor.ConstructorError:
        pass        # families with a tag the safe loader refuses: the work of reading and composing them is measured all the same
    finally:
        sys.setprofile(None)
    return c.n


def measure_dump(value, opts):
    o = dict(opts)
    allm = o.pop('_all', False)
    ser = o.pop('_serialize', False)
    c = Counter()
    sys.setprofile(c.prof)
    try:
        if ser:
            yaml.serialize(value, Dumper=yaml.SafeDumper, **o)
        elif allm:
            yaml.dump_all(value, Dumper=yaml.SafeDumper, **o)
        else:
            yaml.dump(value, Dumper=yaml.SafeDumper, **o)
    finally:
        sys.setprofile(None)
    return c.n


def hwm(kind, arg, opts=None):
    """Supplementary: queue high-water marks via method hooks (separate, unprofiled run)."""
    marks = {'tokens': 0, 'events': 0, 'buffer': 0}
    S, E, R = yaml.scanner.Scanner, yaml.emitter.Emitter, yaml.reader.Reader
    of, oe, ou = S.__dict__.get('fetch_more_tokens'), E.__dict__.get('emit'), R.__dict__.get('update')
    try:
        if of:
            def fm(self):
                r = of(self)
                marks['tokens'] = max(marks['tokens'], len(self.tokens))
                return r
            S.fetch_more_tokens = fm
        if oe:
            def em(self, event):
                r = oe(self, event)
                marks['events'] = max(marks['events'], len(self.events))
                return r
            E.emit = em
        if ou:
            def up(self, length):
                r = ou(self, length)
                marks['buffer'] = max(marks['buffer'], len(self.buffer))
                return r
            R.update = up
        if kind == 'load':
            try:
                for _ in yaml.load_all(arg, Loader=yaml.SafeLoader):
                    pass
            except yaml.constructor.ConstructorError:
                pass
        else:
            o = dict(opts)
            if o.pop('_serialize', False):
                yaml.serialize(arg, Dumper=yaml.SafeDumper, **o)
            elif o.pop('_all', False):
                yaml.dump_all(arg, Dumper=yaml.SafeDumper, **o)
            else:
                yaml.dump(arg, Dumper=yaml.SafeDumper, **o)
    finally:
        if of:
            S.fetch_more_tokens = of
        if oe:
            E.emit = oe
        if ou:
            R.update = ou
    return marks


def plan(tier, seed):
    fams = [('load', k) for k in LOAD] + [('dump', k) for k in DUMP]
    n = 14
    specs = [{'kind': 'families', 'shard': i, 'fams': fams[i::n], 'steps': 2 if tier == 'quick' else 4} for i in range(n)]
    if tier == 'thorough':
        for i in range(14):
            specs.append({'kind': 'compose', 'shard': i, 'n': 12})
    return specs


def measure(kind, name, n):
    if kind == 'load':
        return measure_load(LOAD[name](n))
    f, o = DUMP[name]
    return measure_dump(f(n), o)


def do_family(kind, name, steps, ctx, builder=None):
    case = {'kind': kind, 'family': name}
    ctx.crumb(case)
    m = builder or (lambda n: measure(kind, name, n))
    try:
        n = 32
        c = m(n)
        while c < MIN_CALLS and n < 200000:
            n *= 2
            c = m(n)
        counts = [(n, c)]
        for s in range(steps):
            n *= 2
            counts.append((n, m(n)))
    except yaml.YAMLError as e:
        ctx.violation(case, {'what': 'catalogue family does not load/dump (harness error)', 'exc': str(e)[:200]}, None)
        return
    ratios = [counts[i + 1][1] / counts[i][1] for i in range(len(counts) - 1)]
    slope = math.log(counts[-1][1] / counts[0][1]) / math.log(counts[-1][0] / counts[0][0])
    for nn, cc in counts:
        ctx.case(core.h64(kind, name, nn), True, [kind])
    ctx.note('family', {'kind': kind, 'family': name, 'counts': counts, 'ratios': [round(r, 3) for r in ratios], 'slope': round(slope, 3)})
    ctx.statmax('max:ratio_x1000', int(max(ratios) * 1000))
    ctx.stat('families_measured')
    bad = [r for r in ratios if r > 2 * (1 + EPS)]
    if bad or (len(counts) > 3 and slope > 1.15):
        ctx.violation(dict(case, counts=counts), {'what': 'super-linear growth of the call count', 'ratios': ratios, 'slope': slope, 'limit': 2 * (1 + EPS)}, None)
    if builder is None and len(ctx.samples) < 3:
        ctx.sample({'kind': kind, 'family': name, 'counts': counts, 'ratios': ratios})
    if builder is None:
        try:
            if kind == 'load':
                mk = hwm('load', LOAD[name](counts[-1][0]))
            else:
                mk = hwm('dump', DUMP[name][0](counts[-1][0]), DUMP[name][1])
            ctx.statmax('max:token_queue_hwm', mk['tokens'])
            ctx.statmax('max:event_queue_hwm', mk['events'])
            ctx.statmax('max:reader_buffer_hwm', mk['buffer'])
        except Exception:
            pass


def run(spec, ctx):
    if spec['kind'] == 'families':
        for kind, name in spec['fams']:
            do_family(kind, name, spec['steps'], ctx)
    else:
        r = random.Random(core.h64('C20', spec['seed'], spec['shard']))
        seqfams = ['block_seq', 'nested_seq_map', 'anchors', 'aliases', 'tags', 'typed_scalars', 'binary', 'deep_bounded', 'alias_containers']
        for i in range(spec['n']):
            picks = [r.choice(seqfams) for _ in range(3)]
            name = 'compose:' + '+'.join(picks)

            def m(n, picks=picks):
                # a sequence whose items come from several sequence-shaped families, interleaved by document
                text = ''.join('---\n' + LOAD[p](n) for p in picks)
                return measure_load(text)
            do_family('load', name, 3, ctx, builder=m)


def replay(case, ctx):
    if case['family'].startswith('compose:'):
        picks = case['family'][8:].split('+')
        do_family('load', case['family'], 3, ctx, builder=lambda n: measure_load(''.join('---\n' + LOAD[p](n) for p in picks)))
    else:
        do_family(case['kind'], case['family'], 3, ctx)


def summarize(agg, tier):
    fams = [n['payload'] for n in agg['notes'] if n['kind'] == 'family']
    out = {'families': {('%s:%s' % (f['kind'], f['family'])): {'ratios': f['ratios'], 'slope': f['slope'], 'sizes': [c[0] for c in f['counts']]} for f in fams},
           'worst_ratio': agg['stats'].get('max:ratio_x1000', 0) / 1000.0,
           'queue_high_water_marks': {k[4:]: v for k, v in agg['stats'].items() if k.endswith('_hwm')}}
    if not fams:
        out['_inconclusive'] = 'no family was measured'
    return out
