"""C17 - Python objects survive dump / unsafe load as they survive pickle (reference: pickle protocol 2)."""
import pickle
import random

import yaml

from .. import core, yamlapi
from ..gen import shapes as SH, options as O
from ..ref import bisim

ID = 'C17'
LEVEL = 'exploration'
LEVEL_TEXT = ('Exploration: object graphs are built from a family of classes with one class per reduction shape (instance dict, __slots__, '
              'slots+dict, slots with __setstate__, __getstate__/__setstate__ with dict and tuple state, __getnewargs__, __reduce__ '
              'with state / list items / dict items incl. a dict subclass with a side-effecting __setitem__ and a mapping-like '
              'non-dict, list/dict/str/int subclasses, Enum/IntEnum, namedtuple, tuple, complex, set/frozenset, OrderedDict, deque, '
              'defaultdict, bytearray, range, Decimal, Fraction, timedelta, classes/functions/builtins/modules by name), nested in '
              'each other with explicit sharing and post-hoc cycle edges; each graph is dumped by Dumper and CDumper under '
              'generated options and loaded by UnsafeLoader and CUnsafeLoader; the oracle is ref.bisim against '
              'pickle.loads(pickle.dumps(g, 2)) (exact types, state, identity of classes/functions/modules/enum members, the same '
              'sharing); a cycle through lists, dicts and plain instances only must be rebuilt, any other cycle must be rebuilt '
              'like pickle or end in ConstructorError. FullLoader must accept a document exactly when its tag set (from compose) '
              'lies inside core + python/{none..dict, tuple, complex, name:*} and then build the same value, else raise ConstructorError.' + ' The family also has a callable instance, eager readers of their state / constructor arguments and reduce states that are false in a boolean context.')
LEVEL_NOTE = 'Held on the graphs generated; shapes pickle itself cannot rebuild (lambdas, local classes) are not generated.'
TECHNIQUE = 'runtime monitoring: reference-model oracle (pickle protocol 2 + graph bisimulation) over generated object graphs, 2 dumpers x 2 unsafe loaders + FullLoader acceptance oracle'
DESIGN_REF = 'DESIGN.md section 3, C17'
RULE = ('a case is (graph recipe, options); non-trivial = the graph has at least one non-builtin shape; distinct by hash of (recipe, options)')
ASSUMPTIONS = ['classes live in an importable module (vf.gen.shapes)', 'no NaN as dict key or set member']
P = 'tag:yaml.org,2002:'
# modules "by name": pickle has no reducer for modules, the reference gets one (import by name)
import copyreg, importlib, types
copyreg.pickle(types.ModuleType, lambda m: (importlib.import_module, (m.__name__,)))
FULL_OK = {P + t for t in ('null', 'bool', 'int', 'float', 'binary', 'timestamp', 'omap', 'pairs', 'set', 'str', 'seq', 'map')} | \
          {P + 'python/' + t for t in ('none', 'bool', 'str', 'unicode', 'bytes', 'int', 'long', 'float', 'complex', 'list', 'tuple', 'dict')}


def plan(tier, seed):
    q = tier == 'quick'
    return [{'kind': 'graphs', 'shard': i, 'n': 2200 if q else 60000, 'cext': 'plain'} for i in range(12 if q else 14)]


def full_allowed(tags):
    return all(t in FULL_OK or t.startswith(P + 'python/name:') for t in tags)


def all_tags(text):
    out = set()
    seen = set()
    todo = list(yaml.compose_all(text, Loader=yaml.Loader))
    while todo:
        n = todo.pop()
        if id(n) in seen:
            continue
        seen.add(id(n))
        out.add(n.tag)
        if isinstance(n, yaml.SequenceNode):
            todo.extend(n.value)
        elif isinstance(n, yaml.MappingNode):
            for k, v in n.value:
                todo.append(k)
                todo.append(v)
    return out


def classify(spec, opts, dname, lname, msg):
    """Known mechanisms, each confirmed by its counterfactual; several may be at work in one graph ('A+B'): the
    counterfactual transformations are applied one after the other until the graph is rebuilt exactly like pickle's.
    F19: lost sharing of instances of str/int subclasses (one separate instance per reference instead).
    F25: a falsy state is not applied (truthy states instead).
    F26: an eager reader in a deep context sees an earlier, still empty container (a private inline copy instead)."""
    mechs = []
    cur = spec
    for _ in range(6):
        if 'sharing differs' in msg:
            cur, changed = SH.unshare(cur)
            name = 'F19'
        elif '.restored' in msg and 'F25' not in mechs:
            cur, changed = SH.truthy_states(cur)
            name = 'F25'
        elif ('.size' in msg or '.seen' in msg) and 'F26' not in mechs:
            cur, changed = SH.privatize(cur)
            name = 'F26'
        else:
            return None
        if not changed:
            return None
        if name not in mechs:
            mechs.append(name)
        try:
            ref2 = pickle.loads(pickle.dumps(SH.build(cur), 2))
            y2 = yaml.load(yaml.dump(SH.build(cur), Dumper=getattr(yaml, dname), **opts), Loader=getattr(yaml, lname))
        except Exception:
            return None
        msg = bisim.diff(ref2, y2, track_tuples=True)
        if msg is None:
            return '+'.join(sorted(mechs))
    return None


def check_graph(spec, opts, ctx, case):
    g = SH.build(spec)
    try:
        ref = pickle.loads(pickle.dumps(g, 2))
    except Exception as e:
        ctx.stat('pickle_cannot:' + type(e).__name__)
        return
    if bisim.diff(g, ref, track_tuples=True) is not None:
        ctx.stat('pickle_itself_changes_the_graph')        # e.g. volatile attributes dropped by __getstate__: the reference is pickle's result
    ck = SH.cycle_kinds(spec)
    real = [k for k in ck if k]
    must_keep = all(k <= SH.PLAIN_CYCLE_KINDS for k in real)
    if real:
        ctx.stat('cyclic_graphs')
        ctx.stat('cyclic_plain_only' if must_keep else 'cyclic_other')
    for dname in yamlapi.loaders(['Dumper', 'CDumper']):
        who = dict(case, D=dname)
        ctx.crumb(who)
        try:
            st, text = core.guarded(lambda: yaml.dump(SH.build(spec), Dumper=getattr(yaml, dname), **opts), 10)
            if st == 'hang':
                ctx.hang(who, {'what': 'dump did not finish within 10 s, twice'})
                continue
        except yaml.YAMLError as e:
            ctx.violation(who, {'what': 'dump rejected an object graph that pickle handles', 'exc': yamlapi.exc_sig(e)}, None)
            continue
        except RecursionError:
            ctx.violation(who, {'what': 'RecursionError while dumping'}, None)
            continue
        except Exception as e:
            ctx.violation(who, {'what': 'dump raised a non-YAML exception', 'exc': type(e).__name__, 'msg': str(e)[:200]}, None)
            continue
        ctx.stat('dumps')
        for lname in yamlapi.loaders(['UnsafeLoader', 'CUnsafeLoader']):
            w2 = dict(who, L=lname)
            err = None
            try:
                st, y = core.guarded(lambda: yaml.load(text, Loader=getattr(yaml, lname)), 10)
                if st == 'hang':
                    ctx.hang(w2, {'what': 'unsafe load did not finish within 10 s, twice', 'text': text[:600]})
                    continue
            except yaml.constructor.ConstructorError as e:
                err = e
            except yaml.YAMLError as e:
                ctx.violation(w2, {'what': 'dumper output rejected', 'exc': yamlapi.exc_sig(e), 'text': text[:800]}, None)
                continue
            except RecursionError:
                ctx.violation(w2, {'what': 'RecursionError while loading', 'text': text[:800]}, None)
                continue
            except Exception as e:
                ctx.violation(w2, {'what': 'unsafe load raised a non-YAML exception', 'exc': type(e).__name__, 'msg': str(e)[:200], 'text': text[:800]}, None)
                continue
            ctx.stat('loads')
            if err is not None:
                if real and not must_keep:
                    ctx.stat('nonplain_cycle_rejected')
                else:
                    mech = 'F20' if (real and 'recursive' in str(getattr(err, 'problem', '')) and SH.plain_cycle_under_deep(spec)) else None
                    ctx.violation(w2, {'what': 'object graph without a non-plain cycle rejected by the unsafe loader', 'exc': yamlapi.exc_sig(err), 'text': text[:800]}, mech)
                continue
            m = bisim.diff(ref, y, track_tuples=True)
            if m and ('.seen' in m or '.size' in m) and any(k & SH.EAGER_KINDS for k in real):
                # an eager reader that lies on a cycle observes the order in which the cycle is closed (pickle hands it the
                # still empty container, the two-phase constructor the filled one): the property does not define that order
                ctx.stat('eager_reader_on_a_cycle_order_undefined')
                continue
            if m:
                ctx.violation(w2, {'what': 'rebuilt graph differs from what pickle protocol 2 rebuilds', 'diff': m[:400], 'text': text[:1000]},
                              classify(spec, opts, dname, lname, m))
            else:
                ctx.stat('equal_to_pickle')
                if opts.get('sort_keys') is False:
                    # with sort_keys off the document carries the insertion order of every dict and instance dict, as pickle does
                    mo = bisim.diff(ref, y, ordered=True, track_tuples=True)
                    ctx.stat('order_comparisons')
                    if mo:
                        ctx.violation(w2, {'what': 'sort_keys=False: the order of dict / state entries differs from what pickle protocol 2 rebuilds', 'diff': mo[:400], 'text': text[:1000]}, None)
        # the full loader accepts exactly the tuple / complex / name subset
        try:
            tags = all_tags(text)
        except yaml.YAMLError:
            continue
        ok = full_allowed(tags)
        for lname in yamlapi.loaders(['FullLoader', 'CFullLoader']):
            w2 = dict(who, L=lname)
            try:
                y = yaml.load(text, Loader=getattr(yaml, lname))
                out = 'ok'
            except yaml.constructor.ConstructorError as e:
                out = 'ConstructorError'
                err = e
            except yaml.YAMLError as e:
                out = 'other:' + type(e).__name__
            except Exception as e:
                out = 'nonyaml:' + type(e).__name__
            ctx.stat('full_loads')
            ctx.stat('full:%s:%s' % ('inside' if ok else 'outside', out))
            if ok and out == 'ConstructorError' and real and not must_keep:
                continue
            if ok and out != 'ok':
                ctx.violation(w2, {'what': 'FullLoader rejected a document inside its subset', 'outcome': out, 'tags': sorted(t for t in tags if 'python' in t)[:8], 'text': text[:600]}, None)
            elif not ok and out != 'ConstructorError':
                ctx.violation(w2, {'what': 'FullLoader did not reject a document outside its subset with ConstructorError', 'outcome': out,
                                   'tags': sorted(t for t in tags if t not in FULL_OK and not t.startswith(P + 'python/name:'))[:8], 'text': text[:600]}, None)
            elif ok:
                m = bisim.diff(ref, y, track_tuples=True)
                if m:
                    ctx.violation(w2, {'what': 'FullLoader built another value than pickle/UnsafeLoader', 'diff': m[:300], 'text': text[:600]}, None)


def run(spec, ctx):
    r = random.Random(core.h64('C17', spec['seed'], spec['shard']))
    for i in range(spec['n']):
        gs, classes = SH.gen_spec(r, cycles=True)
        opts = O.gen(r, axes=('default_flow_style', 'canonical', 'indent', 'width', 'allow_unicode', 'sort_keys', 'default_style'))
        case = {'spec': gs, 'opts': opts}
        nt = any(c not in ('shape:list', 'shape:dict', 'shape:tuple') for c in classes)
        ctx.case(core.h64(repr(gs), repr(sorted(opts.items(), key=str))), nt, sorted(classes))
        if i < 2:
            ctx.sample(case)
        check_graph(gs, opts, ctx, case)


def replay(case, ctx):
    ctx.case(core.h64(repr(case)), True)
    check_graph(case['spec'], case['opts'], ctx, {'spec': case['spec'], 'opts': case['opts']})


def summarize(agg, tier):
    st = agg['stats']
    out = {'graphs_equal_to_pickle': st.get('equal_to_pickle', 0), 'cyclic_graphs': st.get('cyclic_graphs', 0),
           'full_loader_outcomes': {k[5:]: v for k, v in st.items() if k.startswith('full:')}}
    if not st.get('equal_to_pickle'):
        out['_inconclusive'] = 'no graph was compared with pickle'
    return out
