"""C18 - streams are consumed incrementally: bounded read-ahead at each delivery, documents before a
malformed one are delivered first, an abandoned iteration releases the stream."""
import gc
import io
import random
import weakref

import yaml

from .. import core, yamlapi
from ..mon import streams

ID = 'C18'
LEVEL = 'exploration'
LEVEL_TEXT = ('Exploration: multi-document streams (2-400 documents, sizes from empty to several refill blocks, long single-line flow '
              'collections, long keys, unbroken tokens longer than two blocks, comment and blank-line gaps longer than two blocks, '
              'explicit and implicit document ends, up to 1 MB) are read through an instrumented stream (text and binary, full and '
              'short-read schedules) by scan, parse, compose_all and load_all of both back-ends; at every delivery (token, '
              'DOCUMENT-END event, node, object) the monitor compares the number of units handed out by read() with the offset at '
              'which the delivered item is decidable (known from the construction of the stream) plus two refill blocks, the block '
              'size being calibrated per back-end on a short-token stream; a malformed k-th document must be preceded by the '
              'delivery of documents 0..k-1; after close(), abandonment (also in the middle of a document) or an error the stream must be '
              'unreferenced at once, with the cyclic garbage collector switched off (weakref dead). Streams include runs of multi-byte '
              'characters only (offsets in bytes for binary delivery) and a real io.StringIO subclass.' + ' Calling the function must read nothing, and an iterator abandoned before its first item must release the stream as well.')
LEVEL_NOTE = ('Held on the streams and schedules generated; the bound is counted in units handed out by read(), never in time.')
TECHNIQUE = 'runtime monitoring: instrumented caller stream (read log + offsets at each yield) against construction-known decision offsets; weakref liveness probe'
DESIGN_REF = 'DESIGN.md section 3, C18'
RULE = ('a case is one stream x one delivery (op, back-end, text/binary, schedule); non-trivial = at least two documents were '
        'delivered and the stream is longer than three refill blocks; distinct by (stream hash, op, loader, form, schedule)')
ASSUMPTIONS = ['block size = the request size the back-end uses on a stream of short tokens (calibrated at run time: 4096 for the Python '
               'reader, 16384 for LibYAML on the unchanged tree)']
OPS = ('scan', 'parse', 'compose_all', 'load_all')


def plan(tier, seed):
    q = tier == 'quick'
    specs = [{'kind': 'streams', 'shard': i, 'n': 9 if q else 220, 'cext': 'plain', 'big': not q} for i in range(12 if q else 14)]
    specs += [{'kind': 'malformed', 'shard': i, 'n': 60 if q else 1500, 'cext': 'plain'} for i in range(2 if q else 4)]
    specs += [{'kind': 'release', 'shard': i, 'n': 40 if q else 800, 'cext': 'plain'} for i in range(2)]
    return specs


# ---------------------------------------------------------------------------------------------
def gen_doc(r, big):
    """(text starting with '---', explicit_end flag)"""
    c = r.random()
    ee = r.random() < 0.3
    blk = 4096
    if c < 0.25:
        body = r.choice(['--- a\n', '---\n', '--- [1, 2]\n', '---\nk: v\n', '--- "q"\n', '--- |\n  lit\n', '--- &a [*a]\n', '--- !!str x\n'])
    elif c < 0.45:
        n = r.choice([1, 5, 50, 400, 2000 if big else 600])
        body = '---\n' + ''.join('key%d: value %d\n' % (i, i) for i in range(n))
    elif c < 0.55:
        n = r.choice([10, 500, 3000, 6000 if big else 3500])
        body = '--- [' + 'a, ' * n + 'z]\n'
    elif c < 0.62:
        body = '---\n? ' + 'k' * r.choice([100, 1000, 5000, 3 * blk]) + '\n: v\n'
    elif c < 0.7:
        body = '---\n' + 'k' * r.choice([10, 500, 1000]) + ': v\n'
    elif c < 0.85:
        n = r.choice([100, blk - 10, blk + 10, 2 * blk + 100, 3 * blk + 7, (9 * blk if big else 3 * blk)])
        body = r.choice(['--- "%s"\n', "--- '%s'\n", '--- %s\n', '--- |\n  %s\n', '--- &%s v\n']) % ('x' * n)
    elif c < 0.93:
        n = r.choice([3, 200, 900])
        body = '---\n' + ''.join('- {a: %d, b: [x, y]}\n' % i for i in range(n))
    else:
        # long runs without a single ASCII byte (multi-byte characters only), several blocks long
        n = r.choice([50, 1400, 2800, 5000, (12000 if big else 5000)])
        ch = r.choice([chr(0x4e2d), chr(0xe9), chr(0x1F600)])
        body = r.choice(['--- "%s"\n', '--- %s\n', '---\n- %s\n- x\n', '--- |\n  %s\n']) % (ch * n)
    if ee:
        body += '...\n'
    return body, ee


def gen_gap(r, big):
    c = r.random()
    if c < 0.55:
        return ''
    m = r.choice([1, 10, 300, 3000 if big else 1200])
    if c < 0.8:
        return '# comment line %d\n' % m * m
    if c < 0.9:
        return '\n' * (m * 4)
    return '   \n' * m


def gen_stream(r, big=False, ndocs=None):
    """Returns (text, decide offsets): decide[k] = offset at which document k is known to be complete:
    end of its '...' line, or the end of the '---' of the next document, or EOF."""
    n = ndocs or r.choice([2, 3, 5, 12, 40, 400 if big else 60])
    parts = []
    starts, ends, ee = [], [], []
    pos = 0
    for i in range(n):
        body, e = gen_doc(r, big) if n < 100 else (r.choice(['--- a\n', '---\nk: v\n', '--- [1, 2]\n...\n', '---\n']), False)
        e = body.endswith('...\n')
        gap = gen_gap(r, big) if n < 100 else ''
        starts.append(pos)
        pos += len(body)
        ends.append(pos)
        ee.append(e)
        parts.append(body)
        parts.append(gap)
        pos += len(gap)
    text = ''.join(parts)
    decide = []
    for i in range(n):
        if ee[i]:
            decide.append(ends[i])
        elif i + 1 < n:
            decide.append(starts[i + 1] + 4)
        else:
            decide.append(len(text))
    return text, decide


class Calib:
    """Block size per back-end: the largest request made on a stream of short tokens."""
    cache = {}

    @classmethod
    def block(cls, lname, binary):
        key = (lname, binary)
        if key not in cls.cache:
            t = ''.join('---\nk%d: v\n' % i for i in range(6000))
            s = streams.ReadStream(t.encode() if binary else t)
            for _ in yaml.parse(s, Loader=getattr(yaml, lname)):
                pass
            cls.cache[key] = s.max_request
        return cls.cache[key]


def deliveries(op, lname, stream):
    """Yield ('doc'|'tok', payload) at each delivery of the op."""
    L = getattr(yaml, lname)
    if op == 'scan':
        for t in yaml.scan(stream, Loader=L):
            yield 'tok', t
    elif op == 'parse':
        for e in yaml.parse(stream, Loader=L):
            if isinstance(e, yaml.DocumentEndEvent):
                yield 'doc', e
    elif op == 'compose_all':
        for n in yaml.compose_all(stream, Loader=L):
            yield 'doc', n
    else:
        for d in yaml.load_all(stream, Loader=L):
            yield 'doc', d


class CountingStringIO(io.StringIO):
    """A real io.TextIOBase stream (io.StringIO subclass) that logs what is read from it."""

    def __init__(self, data):
        io.StringIO.__init__(self, data)
        self.calls = []
        self.max_request = 0
        self.handed = 0

    def read(self, size=-1):
        chunk = io.StringIO.read(self, size)
        self.calls.append((size, len(chunk)))
        if size is not None and size >= 0:
            self.max_request = max(self.max_request, size)
        self.handed += len(chunk)
        return chunk


def byte_offsets(text):
    """off[i] = number of UTF-8 bytes of text[:i]"""
    off = [0] * (len(text) + 1)
    n = 0
    for i, ch in enumerate(text):
        o = ord(ch)
        n += 1 if o < 0x80 else 2 if o < 0x800 else 3 if o < 0x10000 else 4
        off[i + 1] = n
    return off


def check_stream(text, decide, ctx, op, lname, binary, sched, label, textio=False):
    ascii_only = text.isascii()
    data = text.encode('utf-8') if binary else text
    if binary and not ascii_only:
        boff = byte_offsets(text)
        decide = [boff[d] for d in decide]
        unit = lambda i: boff[min(i, len(text))]
    else:
        unit = lambda i: i
    B = Calib.block(lname, binary)
    if not B:
        ctx.stat('calibration_failed')
        return
    if textio and not binary and sched is None:
        s = CountingStringIO(text)
        ctx.stat('textio_deliveries')
    else:
        s = streams.ReadStream(data, sched)
    case = {'label': label, 'op': op, 'loader': lname, 'binary': binary, 'schedule': sched}
    k = 0
    worst = 0
    toks = []
    try:
        for kind, item in deliveries(op, lname, s):
            if kind == 'doc':
                if k >= len(decide):
                    ctx.violation(case, {'what': 'more documents delivered than the stream holds', 'k': k}, None)
                    return
                over = s.handed - decide[k]
                worst = max(worst, over)
                if over > 2 * B:
                    ctx.violation(case, {'what': 'read-ahead at document delivery exceeds two refill blocks', 'document': k, 'decidable_at': decide[k],
                                         'handed_out': s.handed, 'over': over, 'block': B, 'stream_length': len(data)}, None)
                    return
                k += 1
            else:
                toks.append((unit(item.start_mark.index), item.start_mark.line, unit(item.end_mark.index), s.handed, type(item).__name__))
                k += 1
        # a token is released at the latest when the scanner has fetched the first token that makes it stale as a
        # possible simple key (another line, or more than 1024 characters further): bound = end of that token + two blocks
        j = 0
        for i, (st, ln, en, handed, name) in enumerate(toks):
            j = max(j, i + 1)
            while j < len(toks) and not (toks[j][1] > ln or toks[j][0] - st > 4 * 1024):
                j += 1
            if j >= len(toks):
                break
            over = handed - toks[j][2]
            worst = max(worst, over)
            if over > 2 * B:
                ctx.violation(case, {'what': 'read-ahead at token delivery exceeds two refill blocks beyond the token that ends its simple-key window',
                                     'token': name, 'token_start': st, 'window_closing_token_end': toks[j][2], 'handed_out': handed, 'block': B}, None)
                return
        if op != 'scan' and k != len(decide):
            ctx.violation(case, {'what': 'number of documents delivered differs from the stream', 'delivered': k, 'expected': len(decide)}, None)
    except yaml.YAMLError as e:
        ctx.violation(case, {'what': 'valid-by-construction stream rejected', 'exc': yamlapi.exc_sig(e)}, None)
        return
    ctx.statmax('max:doc_readahead_%s' % ('c' if lname.startswith('C') else 'py'), worst)
    ctx.stat('deliveries_checked', k)
    ctx.stat('read_calls', len(s.calls))
    return k


# ---------------------------------------------------------------------------------------------
MALFORMED = [('scanner', '--- @x\n'), ('scanner', '--- `x\n'), ('scanner', '--- "unterminated\n'), ('scanner', '%YAML x\n---\n'), ('scanner', '--- \tx: \t- y\n\t- z'),
             ('scanner', '--- !<x y\n'), ('scanner', '--- &\n'), ('scanner', '--- "\\z"\n'),
             ('parser', '--- [a\n'), ('parser', '--- {a: b\n'), ('parser', '---\n- a\n b: c\n'), ('parser', '--- a\n--- ]\n'), ('parser', '%YAML 1.1\n%YAML 1.1\n---\n'),
             ('parser', '--- !u!x y\n'), ('composer', '--- *nope\n'), ('composer', '--- [&a x, &a y]\n'), ('constructor', '--- !unknown x\n'),
             ('constructor', '--- {[a]: b}\n'), ('constructor', '--- !!int x\n')]


def malformed_case(r, ctx, i):
    k = r.choice([1, 2, 3, 8])
    good, decide = gen_stream(r, False, ndocs=k)
    stage, bad = r.choice(MALFORMED)
    # the terminator of the last good document: the malformed text may directly follow '...' (nothing may be read ahead
    # of the DOCUMENT-END) or a plain document boundary
    sep = r.choice(['', '...\n', '...\n# c\n', '# gap\n' * r.choice([1, 50])])
    if bad.startswith('%') and '...' not in sep:
        sep = '...\n' + sep       # without an end marker the malformed directive line is itself the token that would end the previous document
    tail = r.choice(['', '--- after\n', 'x' * 20000 + '\n'])
    text = good + sep + bad + tail
    for lname in yamlapi.loaders(['SafeLoader', 'CSafeLoader']):
        for op in ('parse', 'compose_all', 'load_all', 'scan'):
            for binary, sched in ((False, None), (True, [50]), (False, [1, 7])):
                if stage == 'constructor' and op != 'load_all' or stage == 'composer' and op in ('scan', 'parse') or stage == 'parser' and op == 'scan':
                    continue
                data = text.encode() if binary else text
                s = streams.ReadStream(data, sched)
                case = {'good': good if len(good) < 2000 else None, 'k': k, 'bad': bad, 'sep': sep, 'tail': tail[:30], 'op': op, 'loader': lname, 'binary': binary,
                        'schedule': sched}
                ctx.crumb({'kind': 'malformed', 'k': k, 'bad': bad, 'op': op, 'loader': lname})
                n = 0
                err = None
                try:
                    for kind, item in deliveries(op, lname, s):
                        if kind == 'doc' or (kind == 'tok' and isinstance(item, (yaml.DocumentStartToken,))):
                            n += 1
                except yaml.YAMLError as e:
                    err = e
                ctx.case(core.h64('mal', text, op, lname, binary, repr(sched)), True, ['malformed:' + stage])
                if err is None:
                    ctx.stat('malformed_not_rejected:' + stage)      # e.g. the C scanner accepts what the Python one rejects: not this property
                    continue
                ctx.stat('error_after_documents_checked')
                need = k
                if n < need:
                    ctx.violation(case, {'what': 'error raised before the preceding documents were delivered', 'delivered_before_error': n, 'preceding_documents': k,
                                         'error': yamlapi.exc_sig(err)}, None)


def release_case(r, ctx, i):
    text, decide = gen_stream(r, False, ndocs=r.choice([2, 3, 6]))
    mode = r.choice(['close', 'drop', 'error', 'exhaust', 'break_in_for', 'mid_document', 'error_mid_document', 'unstarted_close', 'unstarted_drop'])
    if mode == 'error':
        text += '--- @bad\n'
    if mode in ('mid_document', 'error_mid_document'):
        text += '---\n- [a, {k: [v, w, {deep: [1, 2, 3]}]}]\n- tail\n' + ('- @bad\n' if mode == 'error_mid_document' else '')
    pytext = '---\n- !!python/name:os.path.join\n- !!python/tuple [1, 2]\n- !!python/complex 1+2j\n- !!python/name:yaml.YAMLError\n'
    for lname in yamlapi.loaders(['SafeLoader', 'CSafeLoader', 'Loader', 'CLoader', 'FullLoader', 'CFullLoader']):
        for op in OPS:
            binary = r.random() < 0.5
            # the loaders that resolve Python names get a first document that makes them do so (anything cached per loader keeps it alive)
            text_l = (pytext + text) if not lname.endswith('SafeLoader') else text
            s = streams.ReadStream(text_l.encode() if binary else text_l, r.choice([None, [100]]))
            ref = weakref.ref(s)
            case = {'mode': mode, 'op': op, 'loader': lname, 'binary': binary, 'text': text if len(text) < 1500 else None}
            ctx.crumb({'kind': 'release', 'mode': mode, 'op': op, 'loader': lname})
            g = getattr(yaml, op)(s, Loader=getattr(yaml, lname))
            # lazy also means: calling the function reads nothing; the first characters are requested by the first next()
            ctx.stat('call_time_read_probes')
            if s.calls:
                ctx.violation(case, {'what': 'the stream was read before the first item was requested', 'reads_at_call_time': s.calls[:4]}, None)
            try:
                if mode == 'unstarted_close':
                    g.close()
                elif mode == 'unstarted_drop':
                    pass
                elif mode == 'close':
                    next(g)
                    next(g)
                    g.close()
                elif mode == 'drop':
                    next(g)
                elif mode == 'break_in_for':
                    for _ in g:
                        break
                elif mode == 'mid_document':
                    # stop inside a collection, with parser states pending
                    n_items = 0
                    for _ in g:
                        n_items += 1
                        if n_items >= {'scan': 30, 'parse': 22}.get(op, 10 ** 6):
                            break
                else:
                    for _ in g:
                        pass
            except yaml.YAMLError:
                if mode not in ('error', 'error_mid_document'):
                    ctx.stat('release_probe_stream_rejected')        # the probe stream is meant to be valid: a rejected one proves nothing
            except StopIteration:
                pass
            del g
            del s
            ctx.case(core.h64('rel', text, op, lname, mode), True, ['release:' + mode])
            ctx.stat('release_probes')
            # the cyclic collector is switched off for this shard: dispose() exists to clear the loader's self-references, so that
            # abandoning the iteration frees the loader - and the caller's stream - at once
            if ref() is not None:
                holders = [type(x).__name__ for x in gc.get_referrers(ref())][:5]
                gc.collect()
                ctx.violation(case, {'what': 'the stream is still referenced after the iteration was abandoned / finished' +
                                     (' (only the cyclic garbage collector frees it: the loader still refers to itself)' if ref() is None else ''),
                                     'mode': mode, 'referrers': holders}, None)


def run(spec, ctx):
    r = random.Random(core.h64('C18', spec['seed'], spec['kind'], spec['shard']))
    k = spec['kind']
    if k == 'streams':
        for i in range(spec['n']):
            text, decide = gen_stream(r, spec.get('big', False))
            label = core.h64(text)
            if i < 2:
                ctx.sample({'documents': len(decide), 'length': len(text), 'head': text[:120]})
            for lname in yamlapi.loaders(['SafeLoader', 'CSafeLoader']):
                for op in OPS:
                    scheds = [None, r.choice([[100], [4096], [1000, 3], [4095, 1], [17]])]
                    if len(text) < 20000:
                        scheds.append([1])
                    for sched in scheds:
                        binary = r.random() < 0.5
                        ctx.crumb({'kind': 'stream', 'text': text if len(text) < 4000 else None, 'seedinfo': [spec['seed'], spec['shard'], i], 'op': op, 'loader': lname})
                        n = check_stream(text, decide, ctx, op, lname, binary, sched, {'seed': spec['seed'], 'shard': spec['shard'], 'i': i, 'big': spec.get('big', False)},
                                         textio=(sched is None))
                        ctx.case(core.h64(label, op, lname, binary, repr(sched)), bool(n and n >= 2 and len(text) > 3 * 4096),
                                 ['op:' + op, 'backend:' + ('c' if lname.startswith('C') else 'py'), 'docs<=5' if len(decide) <= 5 else 'docs>5'])
    elif k == 'malformed':
        for i in range(spec['n']):
            malformed_case(r, ctx, i)
    elif k == 'release':
        gc.disable()
        for i in range(spec['n']):
            release_case(r, ctx, i)


def replay(case, ctx):
    ctx.case(core.h64(repr(case)), True)
    if 'label' in case and isinstance(case['label'], dict):
        lab = case['label']
        r = random.Random(core.h64('C18', lab['seed'], 'streams', lab['shard']))
        for i in range(lab['i'] + 1):
            text, decide = gen_stream(r, lab.get('big', False))
            for lname in yamlapi.loaders(['SafeLoader', 'CSafeLoader']):
                for op in OPS:
                    scheds = [None, r.choice([[100], [4096], [1000, 3], [4095, 1], [17]])]
                    if len(text) < 20000:
                        scheds.append([1])
                    for sched in scheds:
                        r.random()
        check_stream(text, decide, ctx, case['op'], case['loader'], case['binary'], case['schedule'], lab)
    elif 'bad' in case and case.get('good') is not None:
        text = case['good'] + case['sep'] + case['bad']
        s = streams.ReadStream(text.encode() if case['binary'] else text, case['schedule'])
        n = 0
        try:
            for kind, item in deliveries(case['op'], case['loader'], s):
                if kind == 'doc' or isinstance(item, yaml.DocumentStartToken):
                    n += 1
        except yaml.YAMLError as e:
            if n < case['k']:
                ctx.violation(case, {'what': 'error raised before the preceding documents were delivered', 'delivered_before_error': n, 'preceding_documents': case['k']}, None)
    else:
        r = random.Random(1)
        for i in range(20):
            release_case(r, ctx, i)


def summarize(agg, tier):
    st = agg['stats']
    out = {'max_readahead_units_at_document_delivery': {'py': st.get('max:doc_readahead_py'), 'c': st.get('max:doc_readahead_c')},
           'read_calls_logged': st.get('read_calls', 0)}
    if not st.get('read_calls') or not st.get('deliveries_checked'):
        out['_inconclusive'] = 'the instrumented stream logged no read() call / no delivery was checked'
    elif st.get('release_probe_stream_rejected'):
        out['_inconclusive'] = 'release probe streams that are meant to be valid were rejected (harness)'
    elif not st.get('release_probes') or not st.get('error_after_documents_checked'):
        out['_inconclusive'] = 'release or error-order probes did not run'
    return out
