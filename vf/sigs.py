"""Process-independent signatures of tokens, events, node graphs (and marks)."""
import yaml


def mark_sig(m, index_shift=0):
    if m is None:
        return None
    return (m.index - index_shift, m.line, m.column)


def tok_sig(t, marks=False, shift=0):
    n = type(t).__name__[:-5]
    d = [n]
    if isinstance(t, yaml.ScalarToken):
        d += [t.value, bool(t.plain), t.style or '']
    elif isinstance(t, (yaml.AliasToken, yaml.AnchorToken)):
        d += [t.value]
    elif isinstance(t, yaml.TagToken):
        d += [tuple(t.value) if isinstance(t.value, (tuple, list)) else t.value]
    elif isinstance(t, yaml.DirectiveToken):
        d += [t.name, tuple(t.value) if isinstance(t.value, (tuple, list)) else t.value]
    if marks:
        d += [mark_sig(t.start_mark, shift), mark_sig(t.end_mark, shift)]
    return tuple(d)


def ev_sig(e, marks=False, shift=0, style=True, explicit=True):
    n = type(e).__name__[:-5]
    if n == 'DocumentStart':
        d = [n, bool(e.explicit) if explicit else None, tuple(e.version) if e.version else None, tuple(sorted(e.tags.items())) if e.tags else None]
    elif n == 'DocumentEnd':
        d = [n, bool(e.explicit) if explicit else None]
    elif n == 'Alias':
        d = [n, e.anchor]
    elif n == 'Scalar':
        d = [n, e.anchor, e.tag, tuple(bool(x) for x in e.implicit), e.value, (e.style or '') if style else None]
    elif n in ('SequenceStart', 'MappingStart'):
        d = [n, e.anchor, e.tag, bool(e.implicit), bool(e.flow_style) if style else None]
    else:
        d = [n]
    if marks:
        d += [mark_sig(e.start_mark, shift), mark_sig(e.end_mark, shift)]
    return tuple(d)


def node_sig(node, marks=False, shift=0):
    """Graph signature with first-visit numbering (sharing and cycles show)."""
    seen = {}
    out = []

    def rec(n, depth):
        if n is None:
            out.append('None')
            return
        if id(n) in seen:
            out.append('@%d' % seen[id(n)])
            return
        seen[id(n)] = len(seen)
        k = type(n).__name__[:-4]
        head = '#%d%s<%s>' % (seen[id(n)], k, n.tag)
        if marks:
            head += repr((mark_sig(n.start_mark, shift), mark_sig(n.end_mark, shift)))
        out.append(head)
        if isinstance(n, yaml.ScalarNode):
            out.append(repr(n.value))
        elif isinstance(n, yaml.SequenceNode):
            out.append('[')
            for c in n.value:
                rec(c, depth + 1)
                out.append(',')
            out.append(']')
        elif isinstance(n, yaml.MappingNode):
            out.append('{')
            for kk, v in n.value:
                rec(kk, depth + 1)
                out.append(':')
                rec(v, depth + 1)
                out.append(',')
            out.append('}')
    import sys
    old = sys.getrecursionlimit()
    sys.setrecursionlimit(max(old, 5000))
    try:
        rec(node, 0)
    finally:
        sys.setrecursionlimit(old)
    return ''.join(out)


def f14_pattern(kinds):
    """Mechanism of known finding F14 (libyaml): inside a flow sequence a KEY token is directly followed by VALUE,
    FLOW-ENTRY or FLOW-SEQUENCE-END (an empty key of a single-pair mapping); libyaml then skips that next token.
    kinds: token class names ('KeyToken', ...)."""
    stack = []
    for i, k in enumerate(kinds):
        if k == 'FlowSequenceStartToken':
            stack.append('seq')
        elif k == 'FlowMappingStartToken':
            stack.append('map')
        elif k in ('FlowSequenceEndToken', 'FlowMappingEndToken'):
            if stack:
                stack.pop()
        if k == 'KeyToken' and stack and stack[-1] == 'seq' and i + 1 < len(kinds) and \
                kinds[i + 1] in ('ValueToken', 'FlowEntryToken', 'FlowSequenceEndToken'):
            return True
    return False


def f14_text(text):
    import yaml
    try:
        return f14_pattern([type(t).__name__ for t in yaml.scan(text, Loader=yaml.Loader)])
    except Exception:
        return False
