"""Instrumented caller-side streams: log every read/write/flush, honour the read(size) contract with
arbitrary short-read schedules, and fail the k-th invocation on demand."""


class ReadStream:
    """Text (str data) or binary (bytes data) input stream.

    schedule: None (full reads) | list of ints cycled | callable(k, size) -> int.  Each read returns
    between 1 and size units until EOF (then empty), as the io contract allows.
    fail_at: index of the read() invocation that raises `exc` (a ready exception object).
    """

    def __init__(self, data, schedule=None, fail_at=None, exc=None, name=None):
        self.data = data
        self.pos = 0
        self.schedule = schedule
        self.fail_at = fail_at
        self.exc = exc
        self.calls = []          # (requested, returned)
        self.max_request = 0
        self.closed_ = False
        if name is not None:
            self.name = name

    def read(self, size=-1):
        k = len(self.calls)
        if self.fail_at is not None and k == self.fail_at:
            self.calls.append((size, None))
            raise self.exc
        left = len(self.data) - self.pos
        if size is None or size < 0:
            n = left
        else:
            n = min(size, left)
            self.max_request = max(self.max_request, size)
            if self.schedule is not None and n > 0:
                if callable(self.schedule):
                    lim = self.schedule(k, size)
                else:
                    lim = self.schedule[k % len(self.schedule)]
                n = max(1, min(n, lim))
        chunk = self.data[self.pos:self.pos + n]
        self.pos += n
        self.calls.append((size, n))
        return chunk

    @property
    def handed(self):
        return self.pos


class WriteStream:
    """Output stream logging every write()/flush(); text=True advertises an `encoding` attribute the way
    text files do (PyYAML then writes str), text=False is a binary stream."""

    def __init__(self, text=True, fail_at=None, exc=None, has_flush=True):
        self.ops = []            # ('w', data) | ('f',)
        self.fail_at = fail_at
        self.exc = exc
        if text:
            self.encoding = None
        if has_flush:
            self.flush = self._flush

    def write(self, data):
        k = len(self.ops)
        if self.fail_at is not None and k == self.fail_at:
            self.ops.append(('x',))
            raise self.exc
        self.ops.append(('w', data))
        return len(data)

    def _flush(self):
        k = len(self.ops)
        if self.fail_at is not None and k == self.fail_at:
            self.ops.append(('x',))
            raise self.exc
        self.ops.append(('f',))

    def written(self):
        parts = [o[1] for o in self.ops if o[0] == 'w']
        if not parts:
            return None
        return (b'' if isinstance(parts[0], bytes) else '').join(parts)

    def segments(self):
        """Text written up to each flush()."""
        out = []
        cur = []
        for o in self.ops:
            if o[0] == 'w':
                cur.append(o[1])
            elif o[0] == 'f':
                out.append((b'' if cur and isinstance(cur[0], bytes) else '').join(cur) if cur else '')
        return out
