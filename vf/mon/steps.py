"""Logical step counter / budget for the pure-Python pipeline (sys.monitoring, local events on the
code objects of the loaded yaml package only)."""
import sys
import types

TOOL = 4
mon = sys.monitoring


class BudgetExceeded(BaseException):
    pass


def yaml_code_objects():
    import yaml
    seen = set()
    out = []

    def add_code(c):
        if id(c) in seen:
            return
        seen.add(id(c))
        out.append(c)
        for k in c.co_consts:
            if isinstance(k, types.CodeType):
                add_code(k)

    mods = [m for n, m in list(sys.modules.items()) if (n == 'yaml' or n.startswith('yaml.')) and m is not None]
    for m in mods:
        for v in list(vars(m).values()):
            if isinstance(v, types.FunctionType) and v.__module__ and v.__module__.startswith('yaml'):
                add_code(v.__code__)
            elif isinstance(v, type) and v.__module__ and v.__module__.startswith('yaml'):
                for a in list(vars(v).values()):
                    f = getattr(a, '__func__', a)
                    if isinstance(f, types.FunctionType):
                        add_code(f.__code__)
                    elif isinstance(a, property):
                        for g in (a.fget, a.fset, a.fdel):
                            if isinstance(g, types.FunctionType):
                                add_code(g.__code__)
    return out


class Steps:
    def __init__(self, jumps=True):
        self.n = 0
        self.budget = None
        self.codes = yaml_code_objects()
        ev = mon.events.PY_START | mon.events.PY_RESUME
        if jumps:
            ev |= mon.events.JUMP
        try:
            mon.use_tool_id(TOOL, 'vf-steps')
        except ValueError:
            pass
        mon.register_callback(TOOL, mon.events.PY_START, self._cb)
        mon.register_callback(TOOL, mon.events.PY_RESUME, self._cb)
        if jumps:
            mon.register_callback(TOOL, mon.events.JUMP, self._cb3)
        for c in self.codes:
            mon.set_local_events(TOOL, c, ev)

    def _cb(self, code, off):
        self.n += 1
        if self.budget is not None and self.n > self.budget:
            self.budget = None
            raise BudgetExceeded()

    def _cb3(self, code, off, dst):
        self.n += 1
        if self.budget is not None and self.n > self.budget:
            self.budget = None
            raise BudgetExceeded()

    def begin(self, budget=None):
        self.n = 0
        self.budget = budget

    def end(self):
        self.budget = None
        return self.n

    def close(self):
        for c in self.codes:
            mon.set_local_events(TOOL, c, 0)
        mon.free_tool_id(TOOL)
