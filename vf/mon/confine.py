"""Confinement monitors for C01/C04: CALL events from yaml code (sys.monitoring), audit events,
sys.modules growth, canary counters, module-state digest."""
import builtins
import importlib
import os
import sys
import types

from . import steps as _steps

TOOL = 3
mon = sys.monitoring

CANARY_SRC = '''
COUNT = {'n': 0}
def bump(what):
    COUNT['n'] += 1
    log = COUNT.setdefault('log', [])
    log.append(what)
    if len(log) > 200:
        del log[:100]
class Meta(type):
    @property
    def computed(cls):
        bump('Canary.computed (class-level computed attribute)')
        return 'computed'
class Stepper:
    def __iter__(self):
        return self
    def __next__(self):
        bump('Stepper.__next__')
        return 1
class Canary(metaclass=Meta):
    def __new__(cls, *a, **k):
        bump('Canary.__new__')
        return object.__new__(cls)
    def __init__(self, *a, **k):
        bump('Canary.__init__')
    def __call__(self, *a, **k):
        bump('Canary.__call__')
    def __setstate__(self, s):
        bump('Canary.__setstate__')
    def __reduce__(self):
        return (Canary, ())
def canary_fn(*a, **k):
    bump('canary_fn')
    return 'called'
class Plain:
    pass
class Probe:
    # every protocol method an innocent-looking use (a message, a comparison, a truth test, a membership test) would run
    __hash__ = object.__hash__
    def __repr__(self):
        bump('Probe.__repr__'); return '<probe>'
    def __str__(self):
        bump('Probe.__str__'); return 'probe'
    def __format__(self, spec):
        bump('Probe.__format__'); return 'probe'
    def __eq__(self, other):
        bump('Probe.__eq__'); return self is other
    def __ne__(self, other):
        bump('Probe.__ne__'); return self is not other
    def __lt__(self, other):
        bump('Probe.__lt__'); return False
    def __bool__(self):
        bump('Probe.__bool__'); return True
    def __len__(self):
        bump('Probe.__len__'); return 1
    def __iter__(self):
        bump('Probe.__iter__'); return iter(())
    def __getitem__(self, k):
        bump('Probe.__getitem__'); raise KeyError(k)
    def __contains__(self, k):
        bump('Probe.__contains__'); return False
    def __complex__(self):
        bump('Probe.__complex__'); return 0j
    def __float__(self):
        bump('Probe.__float__'); return 0.0
    def __int__(self):
        bump('Probe.__int__'); return 0
    def __index__(self):
        bump('Probe.__index__'); return 0
    def __bytes__(self):
        bump('Probe.__bytes__'); return b''
    def __getattr__(self, name):
        # any ordinary attribute or method somebody tries on the object (.encode, .lower, .replace, .split, ...)
        if name.startswith('__') and name.endswith('__'):
            raise AttributeError(name)
        bump('Probe.__getattr__ ' + name); raise AttributeError(name)
class UnhashableProbe(Probe):
    __hash__ = None
PROBE = Probe()
UNHASHABLE = UnhashableProbe()
instance = object.__new__(Canary)
VALUE = 42
ITER = iter([10, 20, 30])
STEPPER = Stepper()
'''
UNIMPORTED_SRC = '''
import builtins
builtins.__dict__.setdefault('_vf_unimported_loaded', []).append(1)
def f(*a, **k):
    return 'unimported called'
class K:
    pass
'''


def install_canaries(tmpdir):
    d = os.path.join(tmpdir, 'canary_mods')
    os.makedirs(d, exist_ok=True)
    with open(os.path.join(d, 'vf_canary.py'), 'w') as f:
        f.write(CANARY_SRC)
    with open(os.path.join(d, 'vf_unimported.py'), 'w') as f:
        f.write(UNIMPORTED_SRC)
    # an imported package with a submodule that is importable but not imported, and a package that is not imported at all
    for pkg, imported in (('vf_canarypkg', True), ('vf_unimppkg', False)):
        os.makedirs(os.path.join(d, pkg), exist_ok=True)
        with open(os.path.join(d, pkg, '__init__.py'), 'w') as f:
            f.write('VALUE = 7\n' if imported else UNIMPORTED_SRC)
        with open(os.path.join(d, pkg, 'unimp.py' if imported else 'sub.py'), 'w') as f:
            f.write(UNIMPORTED_SRC)
    if d not in sys.path:
        sys.path.insert(0, d)
    import vf_canary
    import vf_canarypkg
    return vf_canary


class Confinement:
    """begin() ... end() -> list of flagged events (empty = confined)."""

    def __init__(self, targets, canary):
        self.canary = canary
        self.targets = {}
        for name, obj in targets.items():
            self.targets[id(obj)] = name
        self.keep = list(targets.values())
        self.flag_ids = dict(self.targets)
        for f in (builtins.__import__, importlib.import_module, importlib.__import__):
            self.flag_ids[id(f)] = 'import:' + getattr(f, '__name__', '?')
        self.active = False
        self.events = []
        self.callees = set()
        self.ncalls = 0
        self.audit = []
        self.codes = _steps.yaml_code_objects()
        try:
            mon.use_tool_id(TOOL, 'vf-confine')
        except ValueError:
            pass
        mon.register_callback(TOOL, mon.events.CALL, self._call)
        for c in self.codes:
            mon.set_local_events(TOOL, c, mon.events.CALL)
        sys.addaudithook(self._audit)

    def _call(self, code, off, callee, arg0):
        if not self.active:
            return
        self.ncalls += 1
        i = id(callee)
        if i in self.flag_ids:
            self.events.append(('call', self.flag_ids[i]))
        s = getattr(callee, '__self__', None)
        if s is not None and id(s) in self.targets and not isinstance(s, types.ModuleType):
            self.events.append(('call-bound', self.targets[id(s)]))
        if arg0 is not mon.MISSING and id(arg0) in self.targets and getattr(callee, '__name__', '') in ('__new__', '__call__', '__init__', '__setstate__', 'apply', '__reduce_ex__'):
            self.events.append(('call-with-target', self.targets[id(arg0)]))
        try:
            self.callees.add(getattr(callee, '__qualname__', None) or getattr(callee, '__name__', None) or type(callee).__name__)
        except Exception:
            pass

    def _audit(self, event, args):
        if not self.active:
            return
        if event in ('import', 'exec', 'compile', 'os.system', 'subprocess.Popen', 'os.exec', 'os.posix_spawn', 'os.spawn', 'os.fork', 'socket.connect', 'ctypes.dlopen', 'pty.spawn'):
            self.audit.append((event, str(args[0])[:80] if args else ''))
        elif event == 'open':
            self.audit.append((event, str(args[0])[:80]))

    def begin(self):
        self.events = []
        self.audit = []
        self.mods = len(sys.modules)
        self.modset = None
        self.count = self.canary.COUNT['n']
        self.unimp = len(builtins.__dict__.get('_vf_unimported_loaded', []))
        self.active = True

    def end(self):
        self.active = False
        out = list(self.events)
        for ev in self.audit:
            out.append(('audit',) + ev)
        if len(sys.modules) != self.mods:
            out.append(('sys.modules', 'grew from %d to %d' % (self.mods, len(sys.modules))))
        if self.canary.COUNT['n'] != self.count:
            out.append(('canary', ','.join(self.canary.COUNT.get('log', [])[-3:])))
        if len(builtins.__dict__.get('_vf_unimported_loaded', [])) != self.unimp or any(m in sys.modules for m in ('vf_unimported', 'vf_unimppkg', 'vf_unimppkg.sub', 'vf_canarypkg.unimp')):
            out.append(('unimported-module-loaded', 'a canary module that was importable but not imported got imported'))
        return out


# ------------------------------------------------------------------------------------------------
# module-state digest (mon.state)

def _digest_value(v, depth=0):
    import re
    if depth > 6:
        return '<deep>'
    if isinstance(v, dict):
        return '{' + ','.join('%s:%s' % (_digest_value(k, depth + 1), _digest_value(x, depth + 1)) for k, x in v.items()) + '}'
    if isinstance(v, (list, tuple)):
        return '[' + ','.join(_digest_value(x, depth + 1) for x in v) + ']'
    if isinstance(v, (set, frozenset)):
        return 'set(' + ','.join(sorted(_digest_value(x, depth + 1) for x in v)) + ')'
    if isinstance(v, re.Pattern):
        return 'rx(%r,%d)' % (v.pattern, v.flags)
    if isinstance(v, (str, bytes, int, float, bool, type(None))):
        return repr(v)
    if isinstance(v, (types.FunctionType, types.BuiltinFunctionType, type, types.MethodType, classmethod, staticmethod, property)):
        return 'id%d' % id(v)
    if isinstance(v, types.ModuleType):
        return 'mod:' + v.__name__
    return type(v).__name__ + '@%d' % id(v)


def state_digest():
    """dict name -> digest string for every module- and class-level attribute of the yaml package."""
    out = {}
    mods = [(n, m) for n, m in sorted(sys.modules.items()) if (n == 'yaml' or n.startswith('yaml.')) and m is not None]
    for n, m in mods:
        for k, v in list(vars(m).items()):
            if k.startswith('__') and k not in ('__all__',):
                continue
            if isinstance(v, type) and getattr(v, '__module__', '').startswith('yaml'):
                for a, av in list(vars(v).items()):
                    if a in ('__dict__', '__weakref__', '__doc__', '__module__', '__qualname__'):
                        continue
                    out['%s.%s.%s' % (n, k, a)] = _digest_value(av)
            elif isinstance(v, types.ModuleType):
                out['%s.%s' % (n, k)] = 'mod:' + v.__name__
            else:
                out['%s.%s' % (n, k)] = _digest_value(v)
    subclass_digest(out)
    return out


def subclass_digest(out=None):
    """Registries of application subclasses of the yaml classes (defined outside the yaml package): they are class-level
    state too, and a call must not change them either."""
    import yaml
    out = {} if out is None else out
    seen = set()
    todo = [yaml.reader.Reader, yaml.scanner.Scanner, yaml.parser.Parser, yaml.composer.Composer, yaml.constructor.BaseConstructor,
            yaml.resolver.BaseResolver, yaml.representer.BaseRepresenter, yaml.serializer.Serializer, yaml.emitter.Emitter]
    while todo:
        c = todo.pop()
        if c in seen:
            continue
        seen.add(c)
        try:
            todo.extend(c.__subclasses__())
        except TypeError:
            continue
        if not getattr(c, '__module__', '').startswith('yaml'):
            for a, av in list(vars(c).items()):
                if a.startswith('yaml_') or isinstance(av, (dict, list, set)):
                    out['app:%s.%s.%s' % (c.__module__, c.__qualname__, a)] = _digest_value(av)
    return out


def digest_diff(a, b):
    ks = sorted(set(a) | set(b))
    return [k for k in ks if a.get(k) != b.get(k)]
